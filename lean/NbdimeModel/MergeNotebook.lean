import NbdimeModel.MergeGeneric
/-
  `nbdime/merging/notebooks.py`: the strategy table `notebook_merge_strategies(args)` builds from the
  command-line options. Tied to the code on every run: the tables the real function returns for all
  282 accepted option combinations are extracted and compared with this function by `decide`.
-/
namespace Nbdime
namespace Merge

/-- the options `notebook_merge_strategies(args)` reads -/
structure MergeArgs where
  merge : String
  input : Option String
  output : Option String
  ignoreTransients : Bool
  deriving Repr

/-- `dict.update`: later entries override; `none` values are dropped when the table is read -/
def setStrat (k : String) (v : Option String) (t : List (String × Option String)) : List (String × Option String) :=
  insertKV k v t

/-- `nbdime/merging/notebooks.py: notebook_merge_strategies` -/
def notebookStrategies (a : MergeArgs) : Strategies :=
  let t : List (String × Option String) := []
  let t := setStrat "/cells/*/id" (some "remove") t
  let t := setStrat "/nbformat" (some "fail") t
  let t := setStrat "/cells/*/cell_type" (some "fail") t
  let t := setStrat "/nbformat_minor" (some "take-max") t
  let transients := if a.ignoreTransients then
      ["/cells/*/execution_count", "/cells/*/outputs/*/execution_count", "/cells/*/metadata/collapsed",
       "/cells/*/metadata/autoscroll", "/cells/*/metadata/scrolled"]
    else []
  let t := if a.ignoreTransients then
      setStrat "/cells/*/outputs/*/execution_count" (some "clear") (setStrat "/cells/*/execution_count" (some "clear") t)
    else t
  let truthyOr := fun (x : Option String) (d : String) => match x with
    | some s => if s == "" then d else s
    | none => d
  let inputS := truthyOr a.input a.merge
  let outputS := truthyOr a.output a.merge
  let metadataS : Option String := if a.merge != "union" then some a.merge else none
  let t := if a.merge == "inline" then setStrat "/cells" (some "inline-cells") t
    else if a.merge == "union" then setStrat "/cells" (some a.merge) t
    else setStrat "/" (some a.merge) t
  let sourceS := if inputS == "inline" then "inline-source" else inputS
  let attachS := if inputS == "inline" then "inline-attachments" else inputS
  let outputsS := if outputS == "inline" then "inline-outputs" else outputS
  let metadataS := if metadataS == some "inline" then some "record-conflict" else metadataS
  let t := setStrat "/metadata" metadataS t
  let t := setStrat "/cells/*/metadata" metadataS t
  let t := setStrat "/cells/*/outputs/*/metadata" metadataS t
  let t := setStrat "/cells/*/source" (some sourceS) t
  let t := setStrat "/cells/*/attachments" (some attachS) t
  let t := setStrat "/cells/*/outputs" (some outputsS) t
  { table := t.filterMap (fun kv => kv.2.map (fun v => (kv.1, v))), transients := transients }


/-- `decide_notebook_merge` after the two diffs are computed -/
def decideNotebookMerge (O : Oracle) (cfg : Cfg) (render : Render) (a : MergeArgs) (base : J) (ld rd : List Op) :
    Except Err (List MD) :=
  decideMerge { O := O, cfg := cfg, S := notebookStrategies a, render := render } base ld rd

end Merge
end Nbdime
