import NbdimeModel.Json
/-
  C18 — git integration set-up (`nbdime/vcs/git/{diffdriver,mergedriver,difftool,mergetool}.py`,
  `nbdime config-git`). One scope (repository or global) = one config store + one attributes file.
  git itself is an input of the model: `git config k v` sets a single-valued key,
  `--remove-section` drops every key of the section, `--unset` drops one key; failures of the
  latter two on missing keys are caught by the code.
-/
namespace Nbdime.GitCfg

inductive Chunk where
  | foreign (s : String) (hasDiffMarker hasMergeMarker : Bool)   -- pre-existing content
  | diffLine      -- "\n*.ipynb\tdiff=jupyternotebook\n"
  | mergeLine     -- "\n*.ipynb\tmerge=jupyternotebook\n"
  deriving Repr, DecidableEq

structure Store where
  cfg : List (String × String)
  attrs : Option (List Chunk)      -- none = file absent
  deriving Repr, DecidableEq

def setKey (k v : String) : List (String × String) → List (String × String)
  | [] => [(k, v)]
  | (a, b) :: rest => if a == k then (k, v) :: rest else (a, b) :: setKey k v rest

def unsetKey (k : String) (cfg : List (String × String)) : List (String × String) :=
  cfg.filter (fun kv => kv.1 != k)

/-- `pre` is the section name with its trailing dot -/
def removeSection (pre : String) (cfg : List (String × String)) : List (String × String) :=
  cfg.filter (fun kv => !(kv.1.startsWith pre))

def Chunk.hasDiff : Chunk → Bool
  | .foreign _ d _ => d
  | .diffLine => true
  | .mergeLine => false

def Chunk.hasMerge : Chunk → Bool
  | .foreign _ _ m => m
  | .diffLine => false
  | .mergeLine => true

/-- append `line` unless the file already mentions the marker -/
def addAttr (line : Chunk) (marker : Chunk → Bool) : Option (List Chunk) → Option (List Chunk)
  | none => some [line]
  | some cs => if cs.any marker then some cs else some (cs ++ [line])

inductive Cmd where
  | enableDiffDriver | disableDiffDriver
  | enableMergeDriver | disableMergeDriver
  | enableDiffTool (setDefault : Bool) | disableDiffTool
  | enableMergeTool (setDefault : Bool) | disableMergeTool
  | enableAll | disableAll          -- `nbdime config-git --enable / --disable`
  deriving Repr, DecidableEq

/-- what each enable function writes with `git config <key> <value>`, in order -/
def enableWrites : Cmd → List (String × String)
  | .enableDiffDriver => [("diff.jupyternotebook.command", "git-nbdiffdriver diff")]
  | .enableMergeDriver =>
      [("merge.jupyternotebook.driver", "git-nbmergedriver merge %O %A %B %L %P"),
       ("merge.jupyternotebook.name", "jupyter notebook merge driver")]
  | .enableDiffTool sd =>
      [("difftool.nbdime.cmd", "git-nbdifftool diff \"$LOCAL\" \"$REMOTE\" \"$BASE\"")] ++
      (if sd then [("diff.guitool", "nbdime")] else []) ++ [("difftool.prompt", "false")]
  | .enableMergeTool sd =>
      [("mergetool.nbdime.cmd", "git-nbmergetool merge \"$BASE\" \"$LOCAL\" \"$REMOTE\" \"$MERGED\""),
       ("mergetool.prompt", "false")] ++ (if sd then [("merge.tool", "nbdime")] else [])
  | .enableAll =>
      [("diff.jupyternotebook.command", "git-nbdiffdriver diff"),
       ("merge.jupyternotebook.driver", "git-nbmergedriver merge %O %A %B %L %P"),
       ("merge.jupyternotebook.name", "jupyter notebook merge driver"),
       ("difftool.nbdime.cmd", "git-nbdifftool diff \"$LOCAL\" \"$REMOTE\" \"$BASE\""),
       ("difftool.prompt", "false"),
       ("mergetool.nbdime.cmd", "git-nbmergetool merge \"$BASE\" \"$LOCAL\" \"$REMOTE\" \"$MERGED\""),
       ("mergetool.prompt", "false")]
  | _ => []

def applyWrites (ws : List (String × String)) (cfg : List (String × String)) : List (String × String) :=
  ws.foldl (fun c kv => setKey kv.1 kv.2 c) cfg

/-- the attribute lines an enable command makes sure are present -/
def enableAttrs (a : Option (List Chunk)) : Cmd → Option (List Chunk)
  | .enableDiffDriver => addAttr .diffLine Chunk.hasDiff a
  | .enableMergeDriver => addAttr .mergeLine Chunk.hasMerge a
  | .enableAll => addAttr .mergeLine Chunk.hasMerge (addAttr .diffLine Chunk.hasDiff a)
  | _ => a

/-- removal of a default-tool key only when it points at nbdime (difftool.py / mergetool.py) -/
def unsetIfNbdime (k : String) (cfg : List (String × String)) : List (String × String) :=
  if lookupKV k cfg == some "nbdime" then unsetKey k cfg else cfg

def disableCfg (cfg : List (String × String)) : Cmd → List (String × String)
  | .disableDiffDriver => removeSection "diff.jupyternotebook." cfg
  | .disableMergeDriver => removeSection "merge.jupyternotebook." cfg
  | .disableDiffTool => unsetIfNbdime "diff.guitool" cfg
  | .disableMergeTool => unsetIfNbdime "merge.tool" cfg
  | .disableAll =>
      unsetIfNbdime "merge.tool" (unsetIfNbdime "diff.guitool"
        (removeSection "merge.jupyternotebook." (removeSection "diff.jupyternotebook." cfg)))
  | _ => cfg

def step (s : Store) (c : Cmd) : Store :=
  { cfg := disableCfg (applyWrites (enableWrites c) s.cfg) c, attrs := enableAttrs s.attrs c }

def runCmds (s : Store) (cs : List Cmd) : Store := cs.foldl step s

def ownKeys : List String :=
  ["diff.jupyternotebook.command", "merge.jupyternotebook.driver", "merge.jupyternotebook.name",
   "difftool.nbdime.cmd", "difftool.prompt", "mergetool.nbdime.cmd", "mergetool.prompt",
   "diff.guitool", "merge.tool"]

end Nbdime.GitCfg
