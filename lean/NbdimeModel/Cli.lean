/-
  C08 — the run of `nbmerge` / `git-nbmergedriver merge` as a sequence of steps over a small
  world. A step may complete, raise (I/O error, MemoryError, KeyboardInterrupt) or be killed.
  The step list of the real `main_merge` is extracted from the source on every run.
-/
namespace Nbdime.Cli

inductive Step where
  | checkFiles          -- os.path.exists on the three inputs; returns 1 when one is missing
  | read                -- read_notebook
  | merge               -- merge_notebooks (diff, decide, apply)
  | computeRc           -- returncode = 1 if conflicted else 0
  | openOut             -- open(out, 'w'): truncates
  | writeOut            -- write the serialised notebook
  | removeOut           -- agreed deletion: os.remove(out)
  | returnRc            -- return returncode
  | returnConst (n : Nat)
  | swallow             -- a try/except that continues after a failure of the previous step
  deriving Repr, DecidableEq

inductive Out where
  | untouched
  | truncated           -- opened for writing, nothing written yet
  | partial_            -- some but not all of the result written
  | complete            -- the whole merged notebook
  | removed
  deriving Repr, DecidableEq

inductive Fault where
  | raise_              -- an exception: the interpreter exits with status 1
  | kill                -- SIGKILL: status 137, nothing else runs
  deriving Repr, DecidableEq

structure World where
  out : Out
  rc : Option Nat          -- computed return code
  exit : Option Nat        -- exit status once the process has ended
  deriving Repr, DecidableEq

def World.init : World := ⟨.untouched, none, none⟩

def Fault.status : Fault → Nat
  | .raise_ => 1
  | .kill => 137

/-- effect of a step that completes -/
def applyStep (conflict : Bool) (w : World) : Step → World
  | .checkFiles => w
  | .read => w
  | .merge => w
  | .computeRc => { w with rc := some (if conflict then 1 else 0) }
  | .openOut => { w with out := .truncated }
  | .writeOut => { w with out := .complete }
  | .removeOut => { w with out := .removed }
  | .returnRc => { w with exit := some (w.rc.getD 0) }
  | .returnConst n => { w with exit := some n }
  | .swallow => w

/-- effect of a step that fails part-way (only a write leaves a trace) -/
def applyFaulted (w : World) : Step → World
  | .writeOut => { w with out := .partial_ }
  | _ => w

/-- run the steps; `fault = some (i, f)` makes step `i` fail with `f`. A `swallow` right after a
    raising step catches the exception and execution continues. -/
def runSteps (conflict : Bool) : List Step → Option (Nat × Fault) → World → World
  | [], _, w => if w.exit.isSome then w else { w with exit := some 0 }   -- falling off the end
  | s :: rest, fault, w =>
      if w.exit.isSome then w else
      match fault with
      | some (0, f) =>
          let w' := applyFaulted w s
          match f, rest with
          | .raise_, .swallow :: rest' => runSteps conflict rest' none w'
          | _, _ => { w' with exit := some f.status }
      | some (i + 1, f) => runSteps conflict rest (some (i, f)) (applyStep conflict w s)
      | none => runSteps conflict rest none (applyStep conflict w s)

/-- decidable shape predicate on an extracted step list -/
def noSwallow (steps : List Step) : Bool := !steps.contains .swallow

def firstIdx (p : Step → Bool) : List Step → Nat
  | [] => 0
  | s :: rest => if p s then 0 else firstIdx p rest + 1

def mutatesOut : Step → Bool
  | .openOut => true
  | .writeOut => true
  | .removeOut => true
  | _ => false

/-- every output-mutating step comes after the last read, the merge and the rc computation;
    nothing swallows exceptions; the run ends by returning the computed rc -/
def shapeOk (steps : List Step) : Bool :=
  noSwallow steps &&
  steps.getLast? == some .returnRc &&
  (let k := firstIdx mutatesOut steps
   (steps.drop k).all (fun s => s != .read && s != .merge && s != .computeRc && s != .checkFiles) &&
   (steps.take k).contains .merge && (steps.take k).contains .computeRc) &&
  steps.all (fun s => match s with | .returnConst _ => false | _ => true) &&
  (steps.filter (· == .returnRc)).length == 1 &&
  steps.contains .writeOut

end Nbdime.Cli
