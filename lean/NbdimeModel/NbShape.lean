import NbdimeModel.Json
/-
  C04 — the part of the nbformat v4.0–v4.5 schemas that decides whether a *cell* is acceptable:
  cell type, required and permitted keys (`additionalProperties: false`), the `id` rule of 4.5,
  and the JSON types of the fields the merger writes. Tied to jsonschema on the installed schema
  files by a correspondence run (harness/checks/nbshape.py).
-/
namespace Nbdime.NbShape

def idChar (c : Char) : Bool := c.isAlphanum || c == '-' || c == '_'

def idOk (s : List Char) : Bool := decide (1 ≤ s.length) && decide (s.length ≤ 64) && s.all idChar

def isObj : J → Bool
  | .obj _ => true
  | _ => false

def isStr : J → Bool
  | .str _ => true
  | _ => false

def isSource : J → Bool
  | .str _ => true
  | .arr xs => xs.all isStr
  | _ => false

def isCount : J → Bool
  | .null => true
  | .int i => decide (0 ≤ i)
  | _ => false

def outputOk : J → Bool
  | .obj kvs =>
      match lookupKV "output_type" kvs with
      | some (.str t) =>
          let ty := String.ofList t
          if ty == "stream" then hasKey "name" kvs && hasKey "text" kvs && kvs.length == 3
          else if ty == "error" then hasKey "ename" kvs && hasKey "evalue" kvs && hasKey "traceback" kvs && kvs.length == 4
          else if ty == "display_data" then (lookupKV "data" kvs).any isObj && (lookupKV "metadata" kvs).any isObj && kvs.length == 3
          else if ty == "execute_result" then
            (lookupKV "data" kvs).any isObj && (lookupKV "metadata" kvs).any isObj &&
            (lookupKV "execution_count" kvs).any isCount && kvs.length == 4
          else false
      | _ => false
  | _ => false

def outputsOk : J → Bool
  | .arr xs => xs.all outputOk
  | _ => false

def allowedKeys (ty : String) : List String :=
  if ty == "code" then ["id", "cell_type", "metadata", "execution_count", "source", "outputs"]
  else ["id", "cell_type", "metadata", "source", "attachments"]

/-- the `id` rule: required and well-formed from 4.5 on, not permitted before -/
def idRule (minor : Nat) (kvs : List (String × J)) : Bool :=
  match lookupKV "id" kvs with
  | some (.str s) => decide (5 ≤ minor) && idOk s
  | some _ => false
  | none => decide (minor < 5)

def validCell (minor : Nat) : J → Bool
  | .obj kvs =>
      match lookupKV "cell_type" kvs with
      | some (.str t) =>
          let ty := String.ofList t
          (ty == "code" || ty == "markdown" || ty == "raw") &&
          kvs.all (fun kv => (allowedKeys ty).contains kv.1) &&
          idRule minor kvs &&
          (lookupKV "metadata" kvs).any isObj &&
          (lookupKV "source" kvs).any isSource &&
          (if ty == "code" then (lookupKV "outputs" kvs).any outputsOk && (lookupKV "execution_count" kvs).any isCount
           else (match lookupKV "attachments" kvs with
                 | some a => isObj a
                 | none => true))
      | _ => false
  | _ => false

def validCells (minor : Nat) (cells : List J) : Bool := cells.all (validCell minor)

/-- the markdown cell the merger inserts as a conflict marker (nbformat gives it an id) -/
def markerCell (source ident : List Char) : J :=
  .obj [("cell_type", .str "markdown".toList), ("id", .str ident), ("metadata", .obj []), ("source", .str source)]

end Nbdime.NbShape
