import NbdimeModel.Patch
/-
  C07 — the built-in text merge renderer (`prettyprint.builtin_merge_render`,
  `format_merge_render_lines`), used when neither `git merge-file` nor `diff3` is available.
-/
namespace Nbdime.Render

abbrev Line := List Char

def endsWithNL (l : Line) : Bool := l.getLast? == some '\n'

/-- `s.rstrip("\r\n")` -/
def rstripNL (l : Line) : Line := (l.reverse.dropWhile (fun c => c == '\n' || c == '\r')).reverse

/-- `if lines and lines[-1].endswith('\n'): lines[-1] += '\n'` -/
def bumpLast : List Line → List Line
  | [] => []
  | [x] => if endsWithNL x then [x ++ ['\n']] else [x]
  | x :: rest => x :: bumpLast rest

def commonPrefixLen : List Line → List Line → Nat
  | x :: xs, y :: ys => if x == y then commonPrefixLen xs ys + 1 else 0
  | _, _ => 0

/-- the "equal lines at end" loop: it starts at the last index and *increments*, so it collects at
    most the last line of each side, and leaves both sides as they are -/
def postLines (local_ remote : List Line) : List Line :=
  match local_.getLast?, remote.getLast? with
  | some a, some b => if a == b then [a] else []
  | _, _ => []

def m0 : Line := "<<<<<<< local\n".toList
def m1 : Line := "=======\n".toList
def m2 : Line := ">>>>>>> remote\n".toList

def ensureNL (l : Line) : Line := if endsWithNL l then l else l ++ ['\n']

def stripLast : List Line → List Line
  | [] => []
  | [x] => [rstripNL x]
  | x :: rest => x :: stripLast rest

/-- `format_merge_render_lines` (include_base = False) -/
def formatLines (local_ remote : List Line) : List Line :=
  let l := bumpLast local_
  let r := bumpLast remote
  let i := commonPrefixLen l r
  let pre := l.take i
  let l' := l.drop i
  let r' := r.drop i
  let post := postLines l' r'
  let lines := pre ++ [m0] ++ l' ++ [m1] ++ r' ++ [m2] ++ post
  stripLast (lines.map ensureNL)

/-- `builtin_merge_render(base, local, remote, strategy=None)` -/
def builtinMerge (local_ remote : Line) : Line × Nat :=
  if local_ == remote then (local_, 0)
  else ((formatLines (splitLines local_) (splitLines remote)).flatten, 1)

end Nbdime.Render
