import NbdimeModel.Json
/-
  nbdime's diff format (`nbdime/diff_format.py`, `docs/source/diffing.rst`) and the two
  builders that every differ uses to assemble a diff.
-/
namespace Nbdime

inductive Op where
  | add (k : String) (v : J)
  | remove (k : String)
  | replace (k : String) (v : J)
  | patchK (k : String) (d : List Op)
  | addrange (i : Nat) (vs : List J)        -- list items, or lines when applied to a string
  | addchars (i : Nat) (cs : List Char)     -- `valuelist` is a `str` (char level)
  | removerange (i : Nat) (n : Nat)
  | patchI (i : Nat) (d : List Op)
  | invalid (what : String)                 -- anything else found in a decoded diff
  deriving Repr, Inhabited

abbrev Diff := List Op

mutual
def Op.beq : Op → Op → Bool
  | .add k v, .add k' v' => k == k' && J.beq v v'
  | .remove k, .remove k' => k == k'
  | .replace k v, .replace k' v' => k == k' && J.beq v v'
  | .patchK k d, .patchK k' d' => k == k' && Op.beqList d d'
  | .addrange i vs, .addrange i' vs' => i == i' && J.beqList vs vs'
  | .addchars i cs, .addchars i' cs' => i == i' && cs == cs'
  | .removerange i n, .removerange i' n' => i == i' && n == n'
  | .patchI i d, .patchI i' d' => i == i' && Op.beqList d d'
  | .invalid a, .invalid b => a == b
  | _, _ => false
def Op.beqList : List Op → List Op → Bool
  | [], [] => true
  | x :: xs, y :: ys => Op.beq x y && Op.beqList xs ys
  | _, _ => false
end

/- Python `==` on diff entries (dict equality, so values compare with `pyEq`). -/
mutual
def Op.pyEq : Op → Op → Bool
  | .add k v, .add k' v' => k == k' && J.pyEq v v'
  | .remove k, .remove k' => k == k'
  | .replace k v, .replace k' v' => k == k' && J.pyEq v v'
  | .patchK k d, .patchK k' d' => k == k' && Op.pyEqList d d'
  | .addrange i vs, .addrange i' vs' => i == i' && J.pyEqList vs vs'
  | .addchars i cs, .addchars i' cs' => i == i' && cs == cs'
  | .removerange i n, .removerange i' n' => i == i' && n == n'
  | .patchI i d, .patchI i' d' => i == i' && Op.pyEqList d d'
  | .invalid a, .invalid b => a == b
  | _, _ => false
def Op.pyEqList : List Op → List Op → Bool
  | [], [] => true
  | x :: xs, y :: ys => Op.pyEq x y && Op.pyEqList xs ys
  | _, _ => false
end

inductive Key where
  | s (k : String)
  | i (n : Nat)
  | none
  deriving Repr, DecidableEq

def Op.key : Op → Key
  | .add k _ => .s k
  | .remove k => .s k
  | .replace k _ => .s k
  | .patchK k _ => .s k
  | .addrange i _ => .i i
  | .addchars i _ => .i i
  | .removerange i _ => .i i
  | .patchI i _ => .i i
  | .invalid _ => .none

def Op.idx : Op → Nat
  | .addrange i _ => i
  | .addchars i _ => i
  | .removerange i _ => i
  | .patchI i _ => i
  | _ => 0

def Op.skey : Op → String
  | .add k _ => k
  | .remove k => k
  | .replace k _ => k
  | .patchK k _ => k
  | _ => ""

def Op.isAdd : Op → Bool
  | .addrange _ _ => true
  | .addchars _ _ => true
  | _ => false

def Op.isSeqOp : Op → Bool
  | .addrange _ _ => true
  | .addchars _ _ => true
  | .removerange _ _ => true
  | .patchI _ _ => true
  | _ => false

def Op.isMapOp : Op → Bool
  | .add _ _ => true
  | .remove _ => true
  | .replace _ _ => true
  | .patchK _ _ => true
  | _ => false

/-! ### SequenceDiffBuilder -/

/-- `SequenceDiffBuilder.append`: insert at the sorted position; an addrange goes before
    entries with the same key, anything else after them. -/
def seqInsert (e : Op) : List Op → List Op
  | [] => [e]
  | x :: rest =>
      -- walk from the front: `e` goes before the first entry it must precede
      if (if e.isAdd then x.idx ≥ e.idx else x.idx > e.idx) then
        -- but Python walks from the back and stops at the first entry that must stay before:
        -- the two coincide when the list is sorted by key, which the builder maintains.
        e :: x :: rest
      else x :: seqInsert e rest

/-- the exact back-to-front walk of `SequenceDiffBuilder.append` -/
def seqAppendRev (e : Op) : List Op → List Op
  -- argument is the *reversed* current diff; returns reversed result
  | [] => [e]
  | x :: rest =>
      if (if e.isAdd then x.idx ≥ e.idx else x.idx > e.idx) then x :: seqAppendRev e rest
      else e :: x :: rest

def seqAppend (d : List Op) (e : Op) : List Op := (seqAppendRev e d.reverse).reverse

def seqPatch (d : List Op) (k : Nat) (dd : List Op) : List Op :=
  if dd.isEmpty then d else seqAppend d (.patchI k dd)
def seqAddrange (d : List Op) (k : Nat) (vs : List J) : List Op :=
  if vs.isEmpty then d else seqAppend d (.addrange k vs)
def seqAddchars (d : List Op) (k : Nat) (cs : List Char) : List Op :=
  if cs.isEmpty then d else seqAppend d (.addchars k cs)
def seqRemoverange (d : List Op) (k n : Nat) : List Op :=
  if n == 0 then d else seqAppend d (.removerange k n)

/-! ### MappingDiffBuilder: a dict keyed by entry key, `validated()` sorts by key. -/

def mapAppend (d : List (String × Op)) (e : Op) : Except Err (List (String × Op)) :=
  if !e.isMapOp then .error (.assertion "entry.op in MappingDiffBuilder.OPS")
  else if hasKey e.skey d then .error (.assertion "entry.key not in self._diff")
  else .ok (insertKV e.skey e d)

def mapPatch (d : List (String × Op)) (k : String) (dd : List Op) : Except Err (List (String × Op)) :=
  if dd.isEmpty then .ok d else mapAppend d (.patchK k dd)

def mapValidated (d : List (String × Op)) : List Op := d.map (·.2)

end Nbdime
