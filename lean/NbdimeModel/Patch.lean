import NbdimeModel.DiffFormat
/-
  `nbdime/patching.py` and `nbdime/diff_utils.py:flatten_list_of_string_diff`.
  Written from the documented meaning of the diff format plus the exact cursor / bookkeeping
  behaviour of the Python code (which positions are copied, which assertions fire).
-/
namespace Nbdime

/-! ### `str.splitlines(True)` -/

def isLineSep (c : Char) : Bool :=
  c == '\n' || c == '\r' || c == '\x0b' || c == '\x0c' || c == '\x1c' || c == '\x1d' ||
  c == '\x1e' || c == '\u0085' || c == ' ' || c == ' '

/-- `cur` is the current line, reversed. -/
def splitLinesAux : List Char → List Char → List (List Char)
  | [], cur => if cur.isEmpty then [] else [cur.reverse]
  | '\r' :: '\n' :: rest, cur => ('\n' :: '\r' :: cur).reverse :: splitLinesAux rest []
  | c :: rest, cur =>
      if isLineSep c then (c :: cur).reverse :: splitLinesAux rest []
      else splitLinesAux rest (c :: cur)

def splitLines (s : List Char) : List (List Char) := splitLinesAux s []

/-- `[0] + accumulate(len(line))` -/
def lineOffsets : List (List Char) → Nat → List Nat
  | [], acc => [acc]
  | l :: ls, acc => acc :: lineOffsets ls (acc + l.length)

/-! ### flatten a line-based diff into a char-based one -/

def Op.offset (n : Nat) : Op → Except Err Op
  | .addrange i vs => .ok (.addrange (i + n) vs)
  | .addchars i cs => .ok (.addchars (i + n) cs)
  | .removerange i k => .ok (.removerange (i + n) k)
  | .patchI i d => .ok (.patchI (i + n) d)
  | _ => .error (.typeErr "key += offset on a non-integer key")

def joinStrs : List J → Except Err (List Char)
  | [] => .ok []
  | .str s :: rest => do let r ← joinStrs rest; .ok (s ++ r)
  | _ :: _ => .error (.typeErr "sequence item: expected str instance")

def flattenOps (offs : List Nat) : List Op → Except Err (List Op)
  | [] => .ok []
  | e :: es => do
      let here ← match e with
        | .patchI k dd => do
            let off ← match offs[k]? with
              | some o => pure o
              | none => throw (.index "line_to_char[e.key]")
            dd.mapM (Op.offset off)
        | .addrange k vs => do
            let off ← match offs[k]? with
              | some o => pure o
              | none => throw (.index "line_to_char[e.key]")
            let cs ← joinStrs vs
            pure [.addchars off cs]
        | .addchars k cs => do
            let off ← match offs[k]? with
              | some o => pure o
              | none => throw (.index "line_to_char[e.key]")
            pure [.addchars off cs]
        | .removerange k n => do
            let off ← match offs[k]? with
              | some o => pure o
              | none => throw (.index "line_to_char[e.key]")
            let stop ← match offs[k + n]? with
              | some o => pure o
              | none => throw (.index "line_to_char[e.key + e.length]")
            pure [.removerange off (stop - off)]
        | _ => throw (.typeErr "list indices must be integers")
      let rest ← flattenOps offs es
      pure (here ++ rest)

/-- `_overlaps(existing[-1], new)` and `_combine_ops`, char level. `acc` is reversed. -/
def combineStep (acc : List Op) (d : Op) : Except Err (List Op) :=
  match acc, d with
  | .addchars k cs :: rest, .addchars k' cs' =>
      if k == k' then .ok (.addchars k (cs ++ cs') :: rest) else .ok (d :: acc)
  | .removerange k n :: rest, .removerange k' n' =>
      if k == k' then .ok (.removerange k (n + n') :: rest)
      else if k + n ≥ k' then
        if k + n != k' then .error (.runtime "Unexpected diff keys/lengths")
        else .ok (.removerange k (n + n') :: rest)
      else .ok (d :: acc)
  | .patchI k _ :: _, .patchI k' _ =>
      if k == k' then .error (.runtime "combine of two patch ops is not modelled") else .ok (d :: acc)
  | _, _ => .ok (d :: acc)

def combineOps (ops : List Op) : Except Err (List Op) := do
  let r ← ops.foldlM combineStep []
  pure r.reverse

/-- stable insertion sort by integer key (`list.sort(key=lambda x: x.key)`). -/
def insertByIdx (e : Op) : List Op → List Op
  | [] => [e]
  | x :: rest => if e.idx ≤ x.idx then e :: x :: rest else x :: insertByIdx e rest

def sortByIdx (ops : List Op) : List Op := ops.foldr insertByIdx []

def flatten (s : List Char) (d : List Op) : Except Err (List Op) := do
  let offs := lineOffsets (splitLines s) 0
  let cb ← flattenOps offs d
  let comb ← combineOps cb
  pure (sortByIdx comb)

/-! ### patching -/

/-- `patch_list(list(obj), diff)` on characters followed by `"".join`. -/
def patchChars (obj : List Char) : List Op → Nat → Except Err (List Char)
  | [], take => .ok (obj.drop take)
  | e :: es, take =>
      match e with
      | .addchars k cs => do
          let r ← patchChars obj es (max take k)
          .ok ((obj.drop take).take (k - take) ++ cs ++ r)
      | .addrange k vs => do
          let cs ← joinStrs vs
          let r ← patchChars obj es (max take k)
          .ok ((obj.drop take).take (k - take) ++ cs ++ r)
      | .removerange k n => do
          let r ← patchChars obj es (max take (k + n))
          .ok ((obj.drop take).take (k - take) ++ r)
      | .patchI _ _ => .error (.runtime "char-level patch op is not modelled")
      | .invalid w => .error (.format w)
      | _ => .error (.assertion "list key must be integer")

def patchString (s : List Char) (d : List Op) : Except Err (List Char) := do
  let cd ← flatten s d
  patchChars s cd 0

mutual
def patch (x : J) (d : List Op) : Except Err J :=
  match x with
  | .obj kvs => do
      let r ← patchDict kvs d [] []
      .ok (.obj r)
  | .arr xs => do
      let r ← patchList xs d 0
      .ok (.arr r)
  | .str s => do
      let r ← patchString s d
      .ok (.str r)
  | _ => .error (.value "Invalid object type to patch")
termination_by (sizeOf d, 1)

/-- `take` is Python's cursor into `obj`. -/
def patchList (obj : List J) (d : List Op) (take : Nat) : Except Err (List J) :=
  match d with
  | [] => .ok (obj.drop take)
  | e :: es =>
      match e with
      | .addrange k vs => do
          let r ← patchList obj es (max take k)
          .ok ((obj.drop take).take (k - take) ++ vs ++ r)
      | .addchars k cs => do
          -- `newobj.extend("abc")` appends the characters as one-character strings
          let r ← patchList obj es (max take k)
          .ok ((obj.drop take).take (k - take) ++ cs.map (fun c => J.str [c]) ++ r)
      | .removerange k n => do
          let r ← patchList obj es (max take (k + n))
          .ok ((obj.drop take).take (k - take) ++ r)
      | .patchI k dd =>
          match obj[k]? with
          | none => .error (.index "obj[index]")
          | some v => do
              let pv ← patch v dd
              let r ← patchList obj es (max take (k + 1))
              .ok ((obj.drop take).take (k - take) ++ [pv] ++ r)
      | .invalid w => .error (.format w)
      | _ => .error (.assertion "list key must be integer")
termination_by (sizeOf d, 0)

/-- `newobj` in insertion order (reversed), `deleted` keys. Result sorted by key. -/
def patchDict (obj : List (String × J)) (d : List Op) (newobj : List (String × J))
    (deleted : List String) : Except Err (List (String × J)) :=
  match d with
  | [] =>
      let untouched := obj.filter (fun kv => !deleted.contains kv.1 && !hasKey kv.1 newobj)
      .ok (sortKV (newobj.reverse ++ untouched))
  | e :: es =>
      if !e.isMapOp then
        (match e with
         | .invalid w => .error (.format w)
         | _ => .error (.assertion "dict key must be string"))
      else if hasKey e.skey newobj then .error (.assertion "multiple diff entries target same key")
      else
        match e with
        | .add k v =>
            if hasKey k obj then .error (.assertion "patch add value not found for key")
            else patchDict obj es ((k, v) :: newobj) deleted
        | .remove k => patchDict obj es newobj (k :: deleted)
        | .replace k v =>
            if deleted.contains k then .error (.assertion "cannot replace deleted key")
            else patchDict obj es ((k, v) :: newobj) deleted
        | .patchK k dd =>
            if deleted.contains k then .error (.assertion "cannot patch deleted key")
            else match lookupKV k obj with
              | none => .error (.key k)
              | some v => do
                  let pv ← patch v dd
                  patchDict obj es ((k, pv) :: newobj) deleted
        | _ => .error (.assertion "dict key must be string")
termination_by (sizeOf d, 0)
end

end Nbdime
