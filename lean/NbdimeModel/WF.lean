import NbdimeModel.Patch
/-
  Well-formedness of a diff relative to the document it was computed from (property C11):
  list operations ordered by position, non-overlapping, within bounds, at most one insertion per
  position and it comes first; object keys targeted at most once, add => absent,
  remove/replace/patch => present; nested patches only into containers and never empty.
  Decidable (Bool) so the driver can run it on what the implementation produced.
-/
namespace Nbdime

def J.isContainer : J → Bool
  | .str _ => true
  | .arr _ => true
  | .obj _ => true
  | _ => false

def allStr : List J → Bool
  | [] => true
  | .str _ :: rest => allStr rest
  | _ :: _ => false

/-- character level (inside a patched line): only addchars / removerange. `lo` = first position
    not yet consumed, `added` = position of the last insertion. -/
def wfChars (n : Nat) : List Op → Nat → Option Nat → Bool
  | [], _, _ => true
  | .addchars k cs :: es, lo, added =>
      decide (lo ≤ k) && decide (k ≤ n) && !cs.isEmpty && added != some k && wfChars n es k (some k)
  | .removerange k m :: es, lo, _ =>
      decide (lo ≤ k) && decide (1 ≤ m) && decide (k + m ≤ n) && wfChars n es (k + m) none
  | _ :: _, _, _ => false

mutual
def wf (x : J) (d : List Op) : Bool :=
  match x with
  | .obj kvs => wfObj kvs d []
  | .arr xs => wfList xs d 0 none
  | .str s => wfLines (splitLines s) d 0 none
  | _ => false
termination_by (sizeOf d, 1)

def wfList (xs : List J) (d : List Op) (lo : Nat) (added : Option Nat) : Bool :=
  match d with
  | [] => true
  | .addrange k vs :: es =>
      decide (lo ≤ k) && decide (k ≤ xs.length) && !vs.isEmpty && added != some k && wfList xs es k (some k)
  | .removerange k m :: es =>
      decide (lo ≤ k) && decide (1 ≤ m) && decide (k + m ≤ xs.length) && wfList xs es (k + m) none
  | .patchI k dd :: es =>
      decide (lo ≤ k) && !dd.isEmpty &&
      (match xs[k]? with
       | some v => v.isContainer && wf v dd
       | none => false) && wfList xs es (k + 1) none
  | _ :: _ => false
termination_by (sizeOf d, 0)

def wfLines (ls : List (List Char)) (d : List Op) (lo : Nat) (added : Option Nat) : Bool :=
  match d with
  | [] => true
  | .addrange k vs :: es =>
      decide (lo ≤ k) && decide (k ≤ ls.length) && !vs.isEmpty && allStr vs && added != some k &&
      wfLines ls es k (some k)
  | .removerange k m :: es =>
      decide (lo ≤ k) && decide (1 ≤ m) && decide (k + m ≤ ls.length) && wfLines ls es (k + m) none
  | .patchI k dd :: es =>
      decide (lo ≤ k) && !dd.isEmpty &&
      (match ls[k]? with
       | some l => wfChars l.length dd 0 none
       | none => false) && wfLines ls es (k + 1) none
  | _ :: _ => false
termination_by (sizeOf d, 0)

def wfObj (kvs : List (String × J)) (d : List Op) (seen : List String) : Bool :=
  match d with
  | [] => true
  | .add k _ :: es => !seen.contains k && !hasKey k kvs && wfObj kvs es (k :: seen)
  | .remove k :: es => !seen.contains k && hasKey k kvs && wfObj kvs es (k :: seen)
  | .replace k _ :: es => !seen.contains k && hasKey k kvs && wfObj kvs es (k :: seen)
  | .patchK k dd :: es =>
      !seen.contains k && !dd.isEmpty &&
      (match lookupKV k kvs with
       | some v => v.isContainer && wf v dd
       | none => false) && wfObj kvs es (k :: seen)
  | _ :: _ => false
termination_by (sizeOf d, 0)
end

end Nbdime
