import NbdimeModel.MergeStrategies
import NbdimeModel.WF
/-
  `nbdime/merging/generic.py`: `_merge_dicts`, `_split_addrange`, `_merge_concurrent_inserts`,
  `_merge_lists`, `_merge_strings`, `_merge`, `decide_merge_with_diff`.
-/
namespace Nbdime
namespace Merge

structure Env where
  O : Oracle                 -- predicates / difflib for the intermediate diff of `_split_addrange`
  cfg : Cfg                  -- `notebook_config` as it is when the merge runs
  S : Strategies
  render : Render

/-- the recursive call `_merge(base, local_diff, remote_diff, path, ...)`; the flag is
    `_merge_strings.recursion` -/
abbrev Rec := Bool → J → MDiff → MDiff → List PKey → Except Err B

/-! ### transients and parent deletion -/

mutual
/-- `is_diff_all_transients` -/
def allTransients (tr : List String) (path : List PKey) : List Op → Bool
  | [] => true
  | e :: es => entryTransient tr path e && allTransients tr path es
def entryTransient (tr : List String) (path : List PKey) : Op → Bool
  | .patchK k dd =>
      let sub := path ++ [PKey.s k]
      if tr.contains (starPath sub) then true else allTransients tr sub dd
  | .patchI i dd =>
      let sub := path ++ [PKey.i i]
      if tr.contains (starPath sub) then true else allTransients tr sub dd
  | e => match entryKey e with
      | some k => tr.contains (starPath (path ++ [k]))
      | none => false
end

def countering (s : Option String) : Bool := s == some "inline-source"

mutual
/-- `will_diff_counter_parent_deletion` -/
def willCounter (S : Strategies) (path : List PKey) : List Op → Bool
  | [] => false
  | e :: es => entryCounters S path e || willCounter S path es
def entryCounters (S : Strategies) (path : List PKey) : Op → Bool
  | .patchK k dd =>
      let sub := path ++ [PKey.s k]
      countering (S.get (starPath sub)) || willCounter S sub dd
  | .patchI i dd =>
      let sub := path ++ [PKey.i i]
      countering (S.get (starPath sub)) || willCounter S sub dd
  | e => match entryKey e with
      | some k => countering (S.get (starPath (path ++ [k])))
      | none => false
end

def pdFor : PKey → Op
  | .s k => pdEntry k
  | .i n => pdEntry (toString n)

mutual
/-- `create_parent_deletion_counter_diff` -/
def counterDiff (S : Strategies) (path : List PKey) : List Op → List Op
  | [] => []
  | e :: es => counterEntry S path e ++ counterDiff S path es
def counterEntry (S : Strategies) (path : List PKey) : Op → List Op
  | .patchK k dd =>
      let sub := path ++ [PKey.s k]
      if countering (S.get (starPath sub)) then [pdEntry k] else [.patchK k (counterDiff S sub dd)]
  | .patchI i dd =>
      let sub := path ++ [PKey.i i]
      if countering (S.get (starPath sub)) then [pdFor (.i i)] else [.patchI i (counterDiff S sub dd)]
  | e => match entryKey e with
      | some k => if countering (S.get (starPath (path ++ [k]))) then [pdFor k] else []
      | none => []
end

/-! ### `_merge_dicts` -/

/-- `as_dict_based_diff` for a mapping diff: later entries override, keys sorted -/
def dictBased : List Op → Except Err (List (String × Op))
  | [] => .ok []
  | e :: es => do
      let rest ← dictBased es
      match entryKey e with
      | some (.s k) => pure (if hasKey k rest then rest else insertKV k e rest)
      | _ => throw (.format "non-mapping entry in a dict merge (outside the modelled domain)")

/-- one key present in both diffs -/
def dictBoth (E : Env) (rec : Rec) (inStr : Bool) (base : List (String × J)) (path : List PKey)
    (spath : String) (b : B) (key : String) (ld rd : Op) : Except Err B := do
  let itemPath := path ++ [PKey.s key]
  let itemStrategy := E.S.get (spath ++ "/" ++ key)
  let tr := E.S.transients
  let needBase : Except Err J := match lookupKV key base with
    | some v => .ok v
    | none => .error (.value "Cannot handle merge of type Missing")
  if (isPD ld).isSome then
    if !isPatchOp rd then throw (.assertion "rd.op == DiffOp.PATCH")
    let sub ← rec inStr (← needBase) .parentDeleted (.d (opDiff rd)) itemPath
    pure (b ++ sub)
  else if (isPD rd).isSome then
    if !isPatchOp ld then throw (.assertion "ld.op == DiffOp.PATCH")
    let sub ← rec inStr (← needBase) (.d (opDiff ld)) .parentDeleted itemPath
    pure (b ++ sub)
  else if isRemoveOp ld || isRemoveOp rd then
    if isRemoveOp ld && isRemoveOp rd then agreement b path (some [ld]) (some [rd])
    else if isRemoveOp ld && allTransients tr path [rd] then localD b path (some [ld]) (some [rd])
    else if isRemoveOp rd && allTransients tr path [ld] then remoteD b path (some [ld]) (some [rd])
    else conflictD b path (some [ld]) (some [rd]) itemStrategy
  else if (chunkTypename [ld]) != (chunkTypename [rd]) then
    conflictD b path (some [ld]) (some [rd]) itemStrategy
  else if Op.pyEq ld rd then agreement b path (some [ld]) (some [rd])
  else match ld with
    | .add _ _ => conflictD b path (some [ld]) (some [rd]) itemStrategy
    | .replace _ _ => conflictD b path (some [ld]) (some [rd]) itemStrategy
    | .patchK _ l => do
        let sub ← rec inStr (← needBase) (.d l) (.d (opDiff rd)) itemPath
        pure (b ++ sub)
    | _ => throw (.value "Invalid diff ops")

/-- `_merge_dicts` -/
def mergeDicts (E : Env) (rec : Rec) (inStr : Bool) (base : List (String × J)) (ld rd : List Op)
    (path : List PKey) : Except Err B := do
  let spath := starPath path
  let dictStrategy := E.S.get spath
  let l ← dictBased ld
  let r ← dictBased rd
  let lk := l.map (·.1)
  let rk := r.map (·.1)
  let oneKeys := sortStrs (lk.filter (fun k => !rk.contains k) ++ rk.filter (fun k => !lk.contains k))
  let b ← oneKeys.foldlM (fun (b : B) k =>
    onesided b path ((lookupKV k l).map (fun e => [e])) ((lookupKV k r).map (fun e => [e]))) []
  let bothKeys := sortStrs (lk.filter (fun k => rk.contains k))
  let b ← bothKeys.foldlM (fun (b : B) k =>
    match lookupKV k l, lookupKV k r with
    | some le, some re => dictBoth E rec inStr base path spath b k le re
    | _, _ => throw (.key k)) b
  resolveDict path base b dictStrategy

/-! ### concurrent inserts -/

structure SplitState where
  b : B
  taken : Nat
  offset : Int

/-- one iteration of the loop of `_split_addrange`: `d` is `intermediate_diff[i]`, `next` is
    `intermediate_diff[i+1]` if any; the flag returned says that the next entry was consumed too -/
def splitStep (key : Nat) (loc rem : List J) (path : List PKey) (itemStrategy : Option String)
    (d : Op) (next : Option Op) (st : SplitState) : Except Err (SplitState × Bool) := do
  if d.idx < st.taken then throw (.assertion "d.key >= taken")
  let st ← if st.taken < d.idx then do
      let overlap := some [Op.addrange key (slice loc st.taken d.idx)]
      pure { st with b := ← agreement st.b path overlap overlap, taken := d.idx }
    else pure st
  -- range substitution: the next op is a removal on the same key
  let nextRem : Option Nat := match next with
    | some (.removerange k n) => if k == d.idx then some n else none
    | _ => none
  match nextRem with
  | some localLen =>
      match d with
      | .addrange _ vs => do
          let b ← conflictD st.b path (some [.addrange key (slice loc d.idx (d.idx + localLen))])
                    (some [.addrange key vs]) itemStrategy
          pure ({ b := b, taken := st.taken + localLen, offset := st.offset + vs.length - localLen }, true)
      | _ => throw (.key "valuelist")
  | none =>
      match d with
      | .removerange _ n => do
          let vl := slice loc d.idx (d.idx + n)
          let b ← onesided st.b path (some [.addrange key vl]) (some [])
          pure ({ b := b, taken := st.taken + vl.length, offset := st.offset - vl.length }, false)
      | .addrange _ vs => do
          let b ← onesided st.b path none (some [.addrange key vs])
          pure ({ st with b := b, offset := st.offset + vs.length }, false)
      | .patchI _ _ => do
          let lv ← match loc[d.idx]? with
            | some v => pure v
            | none => throw (.index "list index out of range")
          let ri := (Int.ofNat d.idx) + st.offset
          if ri < 0 ∧ Int.ofNat rem.length + ri < 0 then throw (.index "list index out of range")
          let rv ← match (if ri < 0 then rem[(Int.toNat (Int.ofNat rem.length + ri))]? else rem[ri.toNat]?) with
            | some v => pure v
            | none => throw (.index "list index out of range")
          let b ← conflictD st.b path (some [.addrange key [lv]]) (some [.addrange key [rv]]) itemStrategy (some [d])
          pure ({ st with b := b, taken := st.taken + 1 }, false)
      | _ => throw (.value "Invalid diff op")

/-- the loop of `_split_addrange` over the intermediate diff; `skip` = this entry was already
    handled together with its predecessor -/
def splitLoop (key : Nat) (loc rem : List J) (path : List PKey) (itemStrategy : Option String) :
    List Op → Bool → SplitState → Except Err SplitState
  | [], _, st => .ok st
  | _ :: rest, true, st => splitLoop key loc rem path itemStrategy rest false st
  | d :: rest, false, st => do
      let (st', skip) ← splitStep key loc rem path itemStrategy d rest.head? st
      splitLoop key loc rem path itemStrategy rest skip st'

/-- `_split_addrange` -/
def splitAddrange (E : Env) (key : Nat) (loc rem : List J) (path : List PKey) (itemStrategy : Option String) :
    Except Err B := do
  let inter ← diffAt E.O bigFuel E.cfg .generic (starPath path) (.arr loc) (.arr rem)
  let st ← splitLoop key loc rem path itemStrategy inter false { b := [], taken := 0, offset := 0 }
  if st.taken < loc.length then
    let li := loc.drop st.taken
    let idx : Int := Int.ofNat st.taken - Int.ofNat loc.length + Int.ofNat rem.length
    let start : Nat := if idx < 0 then (Int.ofNat rem.length + idx).toNat else idx.toNat
    let ri := rem.drop start
    if !J.pyEqList li ri then throw (.assertion "local_items == remote_items")
    let overlap := some [Op.addrange key li]
    agreement st.b path overlap overlap
  else pure st.b

/-- `_merge_concurrent_inserts` -/
def concurrentInserts (E : Env) (ld rd : List Op) (path : List PKey) (itemStrategy : Option String) :
    Except Err B := do
  if !(insertShapeOk ld && insertShapeOk rd) then throw (.assertion "_merge_concurrent_inserts: diff shapes")
  match ld, rd with
  | .addrange key lvs :: lrest, .addrange _ rvs :: rrest => do
      let sub ← splitAddrange E key lvs rvs path itemStrategy
      if hasConflicted sub && (ld.length == 2 || rd.length == 2) then
        conflictD [] path (some ld) (some rd) itemStrategy
      else if ld.length == 2 && rd.length == 2 then
        if (lrest.map rmLength) != (rrest.map rmLength) then throw (.assertion "ldiff[1].length == rdiff[1].length")
        else agreement sub path (some lrest) (some rrest)
      else if ld.length == 2 || rd.length == 2 then onesided sub path (some lrest) (some rrest)
      else pure sub
  | _, _ => throw (.key "valuelist")

/-! ### `_merge_lists` -/

/-- `_merge_lists`, P/R or R/P: one side removed the item, the other patched it -/
def chunkDeleteVsPatch (E : Env) (rec : Rec) (inStr : Bool) (base : List J) (path : List PKey)
    (listStrategy itemStrategy : Option String) (b : B) (key : Nat) (p0 p1 : List Op) (e0 e1 : Op) : Except Err B := do
  let itemPath := path ++ [PKey.i key]
  let thediff := if isPatchOp e0 then opDiff e0 else opDiff e1
  if isRemoverange e0 && rmLength e0 != 1 then throw (.assertion "p0[0].length == 1")
  if isRemoverange e1 && rmLength e1 != 1 then throw (.assertion "p1[0].length == 1")
  let isTr := allTransients E.S.transients itemPath thediff
  if isRemoverange e0 && isTr then localD b path (some p0) (some p1)
  else if isRemoverange e1 && isTr then remoteD b path (some p0) (some p1)
  else if listStrategy == some "use-base" then pure (baseD b path (some p0) (some p1))
  else if listStrategy == some "use-local" then localD b path (some p0) (some p1)
  else if listStrategy == some "use-remote" then remoteD b path (some p0) (some p1)
  else if willCounter E.S itemPath thediff then do
    let cd := counterDiff E.S itemPath thediff
    let bv ← match base[key]? with
      | some v => pure v
      | none => throw (.index "list index out of range")
    let sub ← if isRemoverange e0 then rec inStr bv (.d cd) (.d thediff) itemPath
              else rec inStr bv (.d thediff) (.d cd) itemPath
    pure (b ++ sub)
  else conflictD b path (some p0) (some p1) itemStrategy

/-- `_merge_lists`, "Then deal with patches and/or removals" -/
def chunkPatchRemove (E : Env) (rec : Rec) (inStr : Bool) (base : List J) (path : List PKey)
    (listStrategy itemStrategy : Option String) (b : B) (key : Nat) (p0 p1 : List Op) (pchunk : String) : Except Err B :=
  if Op.pyEqList p0 p1 then agreement b path (some p0) (some p1)
  else
    match p0, p1 with
    | e0 :: _, e1 :: _ =>
      if pchunk == "P/P" then do
        let bv ← match base[key]? with
          | some v => pure v
          | none => throw (.index "list index out of range")
        let sub ← rec inStr bv (.d (opDiff e0)) (.d (opDiff e1)) (path ++ [PKey.i key])
        pure (b ++ sub)
      else chunkDeleteVsPatch E rec inStr base path listStrategy itemStrategy b key p0 p1 e0 e1
    | _, _ => throw (.index "list index out of range")

/-- `_merge_lists`, "Deal with prior insertion first" -/
def chunkPriorInsert (E : Env) (path : List PKey) (itemStrategy : Option String) (b : B) (a0 a1 : List Op)
    (achunk : String) : Except Err B :=
  if achunk == "A/A" then do
    let sub ← concurrentInserts E a0 a1 path itemStrategy
    pure (b ++ sub)
  else if achunk == "A/" || achunk == "/A" then onesided b path (some a0) (some a1)
  else pure b

/-- the big if-elif 'switch' of `_merge_lists` on the chunk type names -/
def chunkSwitch (E : Env) (rec : Rec) (inStr : Bool) (base : List J) (path : List PKey)
    (listStrategy itemStrategy : Option String) (b : B) (key : Nat) (d0 d1 a0 p0 a1 p1 : List Op)
    (chunk pchunk achunk : String) : Except Err B := do
  if chunk == "/" then pure b
  else if !(!d0.isEmpty && !d1.isEmpty) then onesided b path (some d0) (some d1)
  else if Op.pyEqList d0 d1 then agreement b path (some d0) (some d1)
  else if chunk == "R/R" then pure b      -- logged: "Not expecting conflicting two-sided removal"
  else if pchunk == "P/P" || pchunk == "P/R" || pchunk == "R/P" then do
    let b ← chunkPriorInsert E path itemStrategy b a0 a1 achunk
    chunkPatchRemove E rec inStr base path listStrategy itemStrategy b key p0 p1 pchunk
  else if chunk == "A/P" || chunk == "A/R" then do
    let (b', a) ← tryresolve b path (some d0) (some d1) itemStrategy
    match a with
    | some _ => pure b'
    | none => sequential "local_then_remote" b path (some d0) (some d1) true
  else if chunk == "P/A" || chunk == "R/A" then do
    let (b', a) ← tryresolve b path (some d0) (some d1) itemStrategy
    match a with
    | some _ => pure b'
    | none => sequential "remote_then_local" b path (some d0) (some d1) true
  else if chunk == "A/AP" || chunk == "AP/A" then do
    let sub ← concurrentInserts E a0 a1 path itemStrategy
    onesided (b ++ sub) path (some p0) (some p1)
  else if chunk == "AR/R" || chunk == "R/AR" then do
    let b ← onesided b path (some a0) (some a1)
    agreement b path (some p0) (some p1)
  else if chunk == "AR/A" || chunk == "A/AR" || chunk == "A/A" || chunk == "AR/AR" then do
    let sub ← concurrentInserts E d0 d1 path itemStrategy
    pure (b ++ sub)
  else throw (.assertion "Unhandled chunk conflict type")

/-- one chunk of `_merge_lists` -/
def mergeChunk (E : Env) (rec : Rec) (inStr : Bool) (base : List J) (path : List PKey)
    (listStrategy itemStrategy : Option String) (b : B) (c : Chunk) : Except Err B :=
  let d0 := c.d0
  let d1 := c.d1
  let (la, lp) := chunkTypename d0
  let (ra, rp) := chunkTypename d1
  chunkSwitch E rec inStr base path listStrategy itemStrategy b c.j d0 d1
    (d0.filter isAddrange) (d0.filter (fun e => !isAddrange e)) (d1.filter isAddrange) (d1.filter (fun e => !isAddrange e))
    (la ++ lp ++ "/" ++ ra ++ rp) (lp ++ "/" ++ rp) (la ++ "/" ++ ra)

/-- `_merge_lists` -/
def mergeLists (E : Env) (rec : Rec) (inStr : Bool) (base : List J) (ld rd : List Op) (path : List PKey) :
    Except Err B := do
  let spath := starPath path
  let listStrategy := E.S.get spath
  let itemStrategy := E.S.get (spath ++ "/*")
  let chunks ← makeMergeChunks base.length ld rd
  let b ← chunks.foldlM (mergeChunk E rec inStr base path listStrategy itemStrategy) []
  resolveList E.render path base b listStrategy

/-! ### `_merge_strings`, `_merge` -/

def mergeStrings (E : Env) (rec : Rec) (inStr : Bool) (base : List Char) (ld rd : MDiff) (path : List PKey) :
    Except Err B :=
  if inStr then
    match ld, rd, path.getLast? with
    | .d l, .d r, some line =>
        let strategy := E.S.get (starPath path.dropLast)
        conflictD [] path.dropLast (some [opPatchKey line l]) (some [opPatchKey line r]) strategy
    | _, _, _ => .error (.typeErr "line-level merge with ParentDeleted / empty path (outside the modelled domain)")
  else do
    let strategy := E.S.get (starPath path)
    let b ← if strategy == some "inline-source" then inlineSource E.render path base ld rd
      else match ld, rd with
        | .d l, .d r =>
            if strategy == some "union" then sequential "local_then_remote" [] path (some l) (some r)
            else mergeLists E rec true ((splitLines base).map J.str) l r path
        | _, _ => .error (.typeErr "ParentDeleted without inline-source (outside the modelled domain)")
    pure (resolveStrings b strategy)

/-- `_merge` with recursion fuel -/
def mergeF (E : Env) : Nat → Rec
  | 0, _, _, _, _, _ => .error .fuel
  | fuel + 1, inStr, base, ld, rd, path =>
      match base with
      | .obj kvs => match ld, rd with
          | .d l, .d r => mergeDicts E (mergeF E fuel) inStr kvs l r path
          | _, _ => .error (.typeErr "ParentDeleted on a dict (outside the modelled domain)")
      | .arr xs => match ld, rd with
          | .d l, .d r => mergeLists E (mergeF E fuel) inStr xs l r path
          | _, _ => .error (.typeErr "ParentDeleted on a list (outside the modelled domain)")
      | .str s => mergeStrings E (mergeF E fuel) inStr s ld rd path
      | _ => .error (.value "Cannot handle merge of type")

/-- `decide_merge_with_diff(base, local, remote, local_diff, remote_diff, strategies)` -/
def decideMerge (E : Env) (base : J) (ld rd : List Op) : Except Err (List MD) := do
  let b ← mergeF E bigFuel false base (.d ld) (.d rd) []
  let b := resolveGeneric b (E.S.get "/")
  pure (validated b)

/-! ### "the two sides change different parts" as a decidable predicate (hypothesis of `C06_model_no_conflict`,
    evaluated by the driver on generated cases to measure the theorem's domain) -/

/-- one chunk: at most one side touches it, or both do the same, or both patch the item and the
    sub-diffs are again disjoint -/
def chunkDisj (rec : J → List Op → List Op → List PKey → Bool) (base : List J) (path : List PKey) (c : Chunk) : Bool :=
  c.d0.isEmpty || c.d1.isEmpty || Op.pyEqList c.d0 c.d1 ||
  (match c.d0, c.d1 with
   | [.patchI _ a], [.patchI _ b] =>
       match base[c.j]? with
       | some bv => rec bv a b (path ++ [PKey.i c.j])
       | none => false
   | _, _ => false)

/-- one key of a dict diff against the other side's diff -/
def keyDisj (rec : J → List Op → List Op → List PKey → Bool) (base : List (String × J)) (path : List PKey)
    (k : String) (le re : Op) : Bool :=
  (isRemoveOp le && isRemoveOp re) ||
  (!(isRemoveOp le || isRemoveOp re) && (isPD le).isNone && (isPD re).isNone &&
   chunkTypename [le] == chunkTypename [re] &&
   (Op.pyEq le re ||
    (match le, re, lookupKV k base with
     | .patchK _ a, .patchK _ b, some bv => rec bv a b (path ++ [PKey.s k])
     | _, _, _ => false)))

def disjF (S : Strategies) : Nat → Bool → J → List Op → List Op → List PKey → Bool
  | 0, _, _, _, _, _ => false
  | fuel + 1, inStr, base, ld, rd, path =>
      match base with
      | .obj kvs =>
          match dictBased ld, dictBased rd with
          | .ok l, .ok r =>
              l.all (fun kv => match lookupKV kv.1 r with
                | none => true
                | some re => keyDisj (disjF S fuel inStr) kvs path kv.1 kv.2 re)
          | _, _ => false
      | .arr xs =>
          match makeMergeChunks xs.length ld rd with
          | .ok chunks => chunks.all (chunkDisj (disjF S fuel inStr) xs path)
          | .error _ => false
      | .str s =>
          !inStr && S.get (starPath path) != some "inline-source" && S.get (starPath path) != some "union" &&
          (match makeMergeChunks ((splitLines s).map J.str).length ld rd with
           | .ok chunks => chunks.all (chunkDisj (disjF S fuel true) ((splitLines s).map J.str) path)
           | .error _ => false)
      | _ => false

def disjoint (S : Strategies) (base : J) (ld rd : List Op) : Bool := disjF S bigFuel false base ld rd []

/-! ### "every root key is changed by one side only, or by both sides in the same way": decidable hypothesis of the
    document-level theorems `C05_model_keywise_apply` / `C06_model_keywise`, evaluated by the driver -/

def keywise (base : J) (ld rd : List Op) : Bool :=
  match base with
  | .obj _ => base.canonical && wf base ld && wf base rd &&
      ld.all (fun el => rd.all (fun er => el.skey != er.skey || Op.beq el er))
  | _ => false

/-- the local diff and the remote entries under the other keys -/
def keywiseUnion (ld rd : List Op) : List Op := ld ++ rd.filter (fun e => !(ld.map Op.skey).contains e.skey)

/-- patch-only list diff with strictly ascending indices, all at least `lo` -/
def ascPatchB : Nat → List Op → Bool
  | _, [] => true
  | lo, .patchI j _ :: rest => decide (lo ≤ j) && ascPatchB (j + 1) rest
  | _, _ :: _ => false

/-- "the two sides patch different items of one list of the root object, and nothing else": decidable hypothesis of
    `C06_model_cells`, evaluated by the driver -/
def cellwise (base : J) (ld rd : List Op) : Bool :=
  match base, ld, rd with
  | .obj kvs, [.patchK k dL], [.patchK k' dR] =>
      k == k' && base.canonical && (match lookupKV k kvs with
        | some (.arr _) => true
        | _ => false) &&
      ascPatchB 0 dL && ascPatchB 0 dR && !dL.isEmpty &&
      dL.all (fun e0 => dR.all (fun e1 => e0.idx != e1.idx)) &&
      !Op.pyEq (.patchK k dL) (.patchK k' dR)
  | _, _, _ => false

/-- the local diff, then the remote diff -/
def patchBoth (base : J) (ld rd : List Op) : Except Err J := do
  let l ← patch base ld
  patch l rd

/-- the entry of a mapping diff under key `k` -/
def entryAt (k : String) (d : List Op) : Option Op := d.find? (fun e => e.skey == k)

/-- the remote entries still to apply after the local diff: the one under `k`, and those under keys the local diff
    does not touch -/
def mixedRest (k : String) (ld rd : List Op) : List Op :=
  rd.filter (fun e => e.skey == k || !(ld.map Op.skey).contains e.skey)

/-- the local diff, then the remaining remote entries -/
def patchBothMixed (base : J) (k : String) (ld rd : List Op) : Except Err J := do
  let l ← patch base ld
  patch l (mixedRest k ld rd)

/-- the list under root key `k` and the two patch-only diffs for it -/
def mixedParts (base : J) (k : String) (ld rd : List Op) : Option (List (String × J) × List J × List Op × List Op) :=
  match base with
  | .obj kvs =>
      match lookupKV k kvs, entryAt k ld, entryAt k rd with
      | some (.arr xs), some (.patchK _ dL), some (.patchK _ dR) => some (kvs, xs, dL, dR)
      | _, _, _ => none
  | _ => none

/-- "the two sides patch different items of the list under root key `k` (the cells); on every other root key they touch it
    on one side only or say the same": decidable hypothesis of `C06_model_mixed`, evaluated by the driver -/
def mixedwise (base : J) (k : String) (ld rd : List Op) : Bool :=
  match mixedParts base k ld rd with
  | some (_, _, dL, dR) =>
      base.canonical && wf base ld && wf base rd && !isIntLike k &&
      ascPatchB 0 dL && ascPatchB 0 dR && !dL.isEmpty &&
      dL.all (fun e0 => dR.all (fun e1 => e0.idx != e1.idx)) &&
      !Op.pyEq (.patchK k dL) (.patchK k dR) &&
      ld.all (fun el => rd.all (fun er => el.skey != er.skey || el.skey == k || Op.beq el er))
  | none => false

/-- `apply_decisions(base, decide_merge_with_diff(...))` -/
def mergeApply (E : Env) (base : J) (ld rd : List Op) : Except Err J := do
  let ds ← decideMerge E base ld rd
  applyDecisions base (ds.map MD.toDecision)

end Merge
end Nbdime
