import NbdimeModel.Patch
/-
  C15 — the browser-side line splitter `splitLines` (packages/nbdime/src/common/util.ts):
  `multiline.match(/^.*(\r\n|\r|\n|$)/gm)`. In JavaScript `.` does not match the line terminators
  \n \r U+2028 U+2029, and with the `m` flag `^`/`$` match next to any of them. Consequences
  modelled here: \r\n, \r and \n end a line and are kept; U+2028/U+2029 end a line and are
  *dropped* (they are matched by nothing); \v \f \x1c \x1d \x1e \x85 do not end a line; the final
  (possibly empty) match is always present.
-/
namespace Nbdime.Ts

def isDropped (c : Char) : Bool := c == ' ' || c == ' '

/-- `cur` is the current line, reversed -/
def splitAux : List Char → List Char → List (List Char)
  | [], cur => [cur.reverse]
  | '\r' :: '\n' :: rest, cur => ('\n' :: '\r' :: cur).reverse :: splitAux rest []
  | c :: rest, cur =>
      if c == '\r' || c == '\n' then (c :: cur).reverse :: splitAux rest []
      else if isDropped c then cur.reverse :: splitAux rest []
      else splitAux rest (c :: cur)

def splitLines (s : List Char) : List (List Char) := splitAux s []

/-- the characters on which Python's `str.splitlines` and the browser's splitter disagree -/
def exotic (c : Char) : Bool :=
  c == '\x0b' || c == '\x0c' || c == '\x1c' || c == '\x1d' || c == '\x1e' || c == '\u0085' ||
  c == ' ' || c == ' '

/-- action names accepted by `validateAction` in merge/decisions.ts at the pinned commit -/
def actionsPinned : List String :=
  ["base", "local", "remote", "local_then_remote", "remote_then_local", "custom", "clear", "clear_parent", "either"]

/-- action names the Python merger emits under the web tool's `mergetool` strategy -/
def pythonMergetoolActions : List String :=
  ["base", "local", "remote", "either", "local_then_remote", "remote_then_local", "clear", "remove", "take_max", "custom"]

end Nbdime.Ts
