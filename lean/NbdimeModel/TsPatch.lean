import NbdimeModel.Patch
/-
  C15 — the browser-side line splitter `splitLines` (packages/nbdime/src/common/util.ts):
  `multiline.match(/^.*(\r\n|\r|\n|$)/gm)`. In JavaScript `.` does not match the line terminators
  \n \r U+2028 U+2029, and with the `m` flag `^`/`$` match next to any of them. Consequences
  modelled here: \r\n, \r and \n end a line and are kept; U+2028/U+2029 end a line and are
  *dropped* (they are matched by nothing); \v \f \x1c \x1d \x1e \x85 do not end a line; the final
  (possibly empty) match is always present.
-/
namespace Nbdime.Ts

def isDropped (c : Char) : Bool := c == ' ' || c == ' '

/-- `cur` is the current line, reversed -/
def splitAux : List Char → List Char → List (List Char)
  | [], cur => [cur.reverse]
  | '\r' :: '\n' :: rest, cur => ('\n' :: '\r' :: cur).reverse :: splitAux rest []
  | c :: rest, cur =>
      if c == '\r' || c == '\n' then (c :: cur).reverse :: splitAux rest []
      else if isDropped c then cur.reverse :: splitAux rest []
      else splitAux rest (c :: cur)

def splitLines (s : List Char) : List (List Char) := splitAux s []

/-- the characters on which Python's `str.splitlines` and the browser's splitter disagree -/
def exotic (c : Char) : Bool :=
  c == '\x0b' || c == '\x0c' || c == '\x1c' || c == '\x1d' || c == '\x1e' || c == '\u0085' ||
  c == ' ' || c == ' '

/-- action names accepted by `validateAction` in merge/decisions.ts at the pinned commit -/
def actionsPinned : List String :=
  ["base", "local", "remote", "local_then_remote", "remote_then_local", "custom", "clear", "clear_parent", "either"]

/-- action names the Python merger emits under the web tool's `mergetool` strategy -/
def pythonMergetoolActions : List String :=
  ["base", "local", "remote", "either", "local_then_remote", "remote_then_local", "clear", "remove", "take_max", "custom"]

/-! ### the browser-side patcher: `packages/nbdime/src/patch/generic.ts` (`patch`, `patchSequence`, `patchObject`) and
    `patchString` of `patch/stringified.ts` with `flattenStringDiff` of `diff/util.ts`.
    JavaScript errors: `TypeError` -> `.typeErr`, `RangeError` -> `.index`, `Error` -> `.runtime`. Objects are returned
    key-sorted (the harness compares canonical JSON). -/

/-- `validateSequenceOp(base, entry)` with `n = base.length` -/
def validateSeq (n : Nat) : Op → Except Err Unit
  | .addrange k _ => if k > n then .error (.index "Invalid add range diff op: Key out of range") else .ok ()
  | .addchars k _ => if k > n then .error (.index "Invalid add range diff op: Key out of range") else .ok ()
  | .removerange k m =>
      if k ≥ n then .error (.index "Invalid remove range diff op: Key out of range")
      else if k + m > n then .error (.index "Invalid remove range diff op: Range too long!")
      else .ok ()
  | .patchI k _ => if k ≥ n then .error (.index "Invalid patch diff op: Key out of range") else .ok ()
  | .invalid _ => .error (.runtime "Invalid op")
  | _ => .error (.typeErr "Invalid patch sequence op: Key is not a number")

/-- `validateObjectOp(base, entry, keys)` -/
def validateObj (keys : List String) : Op → Except Err Unit
  | .add k _ => if keys.contains k then .error (.runtime "Invalid add key diff op: Key already present") else .ok ()
  | .remove k => if keys.contains k then .ok () else .error (.runtime "Invalid remove key diff op: Missing key")
  | .replace k _ => if keys.contains k then .ok () else .error (.runtime "Invalid replace key diff op: Missing key")
  | .patchK k _ => if keys.contains k then .ok () else .error (.runtime "Invalid patch key diff op: Missing key")
  | .invalid _ => .error (.runtime "Invalid op")
  | _ => .error (.typeErr "Invalid patch object op: Key is not a string")

/-- `e.op !== 'addrange'` -/
def notAddrange : Op → Bool
  | .addrange _ _ => false
  | .addchars _ _ => false
  | _ => true

/-- stable sort of a line diff: by key, an insertion before a change of the same line (`flattenStringDiff`) -/
def insertLineOp (e : Op) : List Op → List Op
  | [] => [e]
  | x :: rest =>
      if e.idx < x.idx || (e.idx == x.idx && (!notAddrange e || notAddrange x)) then e :: x :: rest
      else x :: insertLineOp e rest

def sortLineOps (ops : List Op) : List Op := ops.foldr insertLineOp []

/-- the body of the loop of `flattenStringDiff` for one entry (after `validateStringDiff`) -/
def flattenEntry (lines : List (List Char)) (offs : List Nat) (e : Op) : Except Err (List Op) := do
  validateSeq lines.length e
  let off ← match offs[e.idx]? with
    | some o => pure o
    | none => throw (.typeErr "lineToChar[e.key] is undefined")
  match e with
  | .patchI k dd => do
      let line := (lines[k]?).getD []
      let _ ← dd.mapM (validateSeq line.length)
      dd.mapM (Op.offset off)
  | .addrange _ vs => do
      let cs ← joinStrs vs
      pure [.addchars off cs]
  | .addchars _ _ => throw (.typeErr "e.valuelist.join is not a function")
  | .removerange k n =>
      match offs[k + n]? with
      | some stop => pure [.removerange off (stop - off)]
      | none => throw (.typeErr "lineToChar[idx] is undefined")
  | _ => throw (.typeErr "unreachable")

def flattenTs (s : List Char) (d : List Op) : Except Err (List Op) := do
  let lines := splitLines s
  let offs := lineOffsets lines 0
  let parts ← (sortLineOps d).mapM (flattenEntry lines offs)
  pure (sortByIdx parts.flatten)

/-- the cursor loop of `patchString`; `skip` survives an entry that is neither an insertion nor a removal -/
def charLoop (base : List Char) : List Op → Nat → Except Err (List Char)
  | [], take => .ok (base.drop take)
  | e :: es, take =>
      match e with
      | .addchars k cs => do
          let r ← charLoop base es (max take k)
          .ok ((base.drop take).take (k - take) ++ cs ++ r)
      | .removerange k n => do
          let r ← charLoop base es (max take (k + n))
          .ok ((base.drop take).take (k - take) ++ r)
      | _ => .error (.runtime "character-level entry that is neither addrange nor removerange (not modelled)")

def patchString (s : List Char) (d : List Op) : Except Err (List Char) := do
  let cd ← flattenTs s d
  charLoop s cd 0

def setKV' (k : String) (v : J) (kvs : List (String × J)) : List (String × J) :=
  (k, v) :: kvs.filter (fun kv => kv.1 != k)

mutual
def patch (x : J) (d : List Op) : Except Err J :=
  match x with
  | .str s => do
      let r ← patchString s d
      .ok (.str r)
  | .arr xs => do
      let r ← patchSeq xs d 0
      .ok (.arr r)
  | .obj kvs => do
      let r ← patchObj kvs d [] (kvs.map (·.1))
      .ok (.obj r)
  | .null => .error (.typeErr "Cannot patch a null base!")
  | _ => .error (.typeErr "Cannot patch an atomic type")
termination_by (sizeOf d, 1)

def patchSeq (base : List J) (d : List Op) (take : Nat) : Except Err (List J) :=
  match d with
  | [] => .ok (base.drop take)
  | e :: es =>
      match validateSeq base.length e with
      | .error er => .error er
      | .ok () =>
        match e with
        | .addrange k vs => do
            let r ← patchSeq base es (max take k)
            .ok ((base.drop take).take (k - take) ++ vs ++ r)
        | .addchars k cs => do
            -- `patched.concat("abc")` appends the string as one item
            let r ← patchSeq base es (max take k)
            .ok ((base.drop take).take (k - take) ++ [J.str cs] ++ r)
        | .removerange k n => do
            let r ← patchSeq base es (max take (k + n))
            .ok ((base.drop take).take (k - take) ++ r)
        | .patchI k dd =>
            match base[k]? with
            | none => .error (.index "Invalid patch diff op: Key out of range")
            | some v => do
                let pv ← patch v dd
                let r ← patchSeq base es (max take (k + 1))
                .ok ((base.drop take).take (k - take) ++ [pv] ++ r)
        | _ => .error (.typeErr "unreachable")
termination_by (sizeOf d, 0)

/-- `patched` in insertion order (reversed), `keysToCopy` -/
def patchObj (base : List (String × J)) (d : List Op) (patched : List (String × J)) (keysToCopy : List String) :
    Except Err (List (String × J)) :=
  match d with
  | [] =>
      let copied := keysToCopy.filterMap (fun k => (lookupKV k base).map (fun v => (k, v)))
      -- later assignments win: the copied keys are assigned last
      .ok (sortKV (copied.reverse ++ patched.filter (fun kv => !keysToCopy.contains kv.1)))
  | e :: es =>
      match validateObj keysToCopy e with
      | .error er => .error er
      | .ok () =>
        match e with
        | .add k v => patchObj base es (setKV' k v patched) keysToCopy
        | .remove k => patchObj base es patched (keysToCopy.erase k)
        | .replace k v => patchObj base es (setKV' k v patched) (keysToCopy.erase k)
        | .patchK k dd =>
            match lookupKV k base with
            | none => .error (.typeErr "Cannot patch undefined")
            | some v => do
                let pv ← patch v dd
                patchObj base es (setKV' k pv patched) (keysToCopy.erase k)
        | _ => .error (.typeErr "unreachable")
termination_by (sizeOf d, 0)
end

mutual
/-- no string of the document contains a character the two languages split differently -/
def noExotic : J → Bool
  | .str s => s.all (fun c => !exotic c)
  | .arr xs => noExoticL xs
  | .obj kvs => noExoticK kvs
  | _ => true
def noExoticL : List J → Bool
  | [] => true
  | x :: xs => noExotic x && noExoticL xs
def noExoticK : List (String × J) → Bool
  | [] => true
  | (_, x) :: xs => noExotic x && noExoticK xs
end

end Nbdime.Ts
