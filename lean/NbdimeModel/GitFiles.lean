import NbdimeModel.Json
/-
  C17 — `nbdime/gitfiles.py:changed_notebooks/_get_diff_entry_stream`, `utils.pushd`.
  git / GitPython are inputs: the list of diff entries they report (paths, blob present or not).
  The file system is a map from absolute paths (component lists) to contents.
-/
namespace Nbdime.GitFiles

abbrev Path := List String

/-- `os.chdir(rel)` from `cwd`: "." stays, ".." pops, anything else descends -/
def chdir (cwd : Path) : List String → Path
  | [] => cwd
  | "." :: rest => chdir cwd rest
  | ".." :: rest => chdir cwd.dropLast rest
  | d :: rest => chdir (cwd ++ [d]) rest

/-- `os.path.relpath(root, cwd)` when `cwd = root ++ popped` -/
def relToRoot (popped : List String) : List String :=
  if popped.isEmpty then ["."] else popped.map (fun _ => "..")

inductive Ref where
  | commit (name : String)
  | index
  | worktree
  deriving Repr, DecidableEq

structure Entry where
  aPath : Option (List String)     -- path components relative to the repository root
  bPath : Option (List String)
  aBlob : Option String     -- content, none = GitPython's "no blob" (added / deleted)
  bBlob : Option String
  deriving Repr, DecidableEq

inductive Stream where
  | missing                              -- EXPLICIT_MISSING_FILE
  | blob (label : String) (content : String)
  | file (content : String)              -- opened from the working tree
  deriving Repr, DecidableEq

def isNb (p : List String) : Bool :=
  match p.getLast? with
  | some name => name.endsWith ".ipynb"
  | none => false

structure World where
  cwd : Path
  files : List (Path × String)

def World.read (w : World) (rel : List String) : Option String :=
  (w.files.find? (fun f => f.1 == chdir w.cwd rel)).map (·.2)

def refLabel : Ref → String
  | .commit n => n
  | .index => "<INDEX>"
  | .worktree => ""

/-- `pushd`: `restore = true` is the repaired context manager (`old = os.getcwd()`),
    `restore = false` the original one (`old = os.curdir`, i.e. chdir(".") on exit). -/
def withPushd (restore : Bool) (w : World) (dir : List String) (body : World → Option Stream) :
    Option Stream × World :=
  let inside : World := { w with cwd := chdir w.cwd dir }
  (body inside, if restore then w else inside)

/-- `_get_diff_entry_stream`; `none` = not a notebook (entry skipped) -/
def entryStream (restore : Bool) (w : World) (path : Option (List String)) (blob : Option String) (ref : Ref)
    (repoDir : List String) : Option Stream × World :=
  match path with
  | none => (some .missing, w)
  | some p =>
    if p.isEmpty then (some .missing, w)
    else if !isNb p then (none, w)
    else match ref with
      | .worktree =>
          withPushd restore w repoDir (fun wi =>
            match wi.read p with
            | some c => some (.file c)
            | none => some .missing)
      | _ =>
          match blob with
          | none => (some .missing, w)
          | some c => (some (.blob (String.intercalate "/" p ++ " (" ++ refLabel ref ++ ")") c), w)

/-- the loop of `changed_notebooks` -/
def changed (restore : Bool) (base remote : Ref) (repoDir : List String) :
    World → List Entry → List (Stream × Stream) × World
  | w, [] => ([], w)
  | w, e :: es =>
      let (fa, w1) := entryStream restore w e.aPath e.aBlob base repoDir
      match fa with
      | none => changed restore base remote repoDir w1 es
      | some a =>
        let (fb, w2) := entryStream restore w1 e.bPath e.bBlob remote repoDir
        match fb with
        | none => changed restore base remote repoDir w2 es
        | some b =>
          let (rest, w3) := changed restore base remote repoDir w2 es
          ((a, b) :: rest, w3)

/-- path filters given from a subdirectory are prefixed by the directories between the
    repository root and the invocation directory -/
def prefixPaths (popped : List String) (paths : List String) : List String :=
  if popped.isEmpty then paths else paths.map (fun p => String.intercalate "/" (popped ++ [p]))

end Nbdime.GitFiles
