/-
  C16 — `PrettyPrintConfig.should_ignore_path` (the prefix table that decides which parts of a
  notebook / diff the terminal renderer shows) and the plain-text line prefixes.
-/
namespace Nbdime.Pretty

structure Include where
  sources : Bool
  outputs : Bool
  attachments : Bool
  metadata : Bool
  id : Bool
  details : Bool
  deriving Repr, DecidableEq

/-- `should_ignore_path` on an already starred path -/
def shouldIgnore (c : Include) (starred : String) : Bool :=
  if starred.startsWith "/cells/*/source" then !c.sources
  else if starred.startsWith "/cells/*/attachments" then !c.attachments
  else if starred.startsWith "/cells/*/metadata" || starred.startsWith "/metadata" then !c.metadata
  else if starred.startsWith "/cells/*/id" then !c.id
  else if starred.startsWith "/cells/*/outputs" then
    !c.outputs || (starred == "/cells/*/outputs/*/execution_count" && !c.details)
  else if starred.startsWith "/cells/*/" then !c.details
  else if starred.startsWith "/nbformat" then !c.details
  else false

/-- the line prefixes used when colour is off (`col_const[False]`) -/
def plainConstants : List String := ["   ", "-  ", "+  ", "## ", ""]

def hasEsc (s : String) : Bool := s.toList.any (· == '\x1b')

end Nbdime.Pretty
