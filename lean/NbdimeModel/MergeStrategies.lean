import NbdimeModel.Merge
/-
  `nbdime/merging/strategies.py`: conflict resolution by strategy
  (`resolve_conflicted_decisions_{list,dict,strings}`, `resolve_strategy_*`).
-/
namespace Nbdime
namespace Merge

def jstr (s : String) : J := .str s.toList

/-- the text merge renderer `merge_render(base, local, remote, None)` as an oracle -/
abbrev Render := List Char → List Char → List Char → Except Err (List Char × Nat)

/-! ### diff entries as JSON (`DiffEntry` dicts inside `nbdime-conflicts`) -/
mutual
def opToJ : Op → J
  | .add k v => .obj [("key", jstr k), ("op", jstr "add"), ("value", v)]
  | .remove k => .obj [("key", jstr k), ("op", jstr "remove")]
  | .replace k v => .obj [("key", jstr k), ("op", jstr "replace"), ("value", v)]
  | .patchK k d => .obj [("diff", .arr (opsToJ d)), ("key", jstr k), ("op", jstr "patch")]
  | .addrange i vs => .obj [("key", .int i), ("op", jstr "addrange"), ("valuelist", .arr vs)]
  | .addchars i cs => .obj [("key", .int i), ("op", jstr "addrange"), ("valuelist", .str cs)]
  | .removerange i n => .obj [("key", .int i), ("length", .int n), ("op", jstr "removerange")]
  | .patchI i d => .obj [("diff", .arr (opsToJ d)), ("key", .int i), ("op", jstr "patch")]
  | .invalid w => .obj [("op", jstr w)]
def opsToJ : List Op → List J
  | [] => []
  | e :: es => opToJ e :: opsToJ es
end

/-! ### helpers -/

def isPrefixOf (p q : List PKey) : Bool := q.take p.length == p

/-- `push_patch_decision(decision, prefix)` -/
def pushPatchDecision (d : MD) : List PKey → Except Err MD
  | [] => .ok d
  | prefix_ => do
      -- innermost key first
      let rec go (d : MD) : List PKey → Except Err MD
        | [] => .ok d
        | key :: rest =>
            match d.path.getLast? with
            | none => .error (.value "Cannot remove key from empty decision path")
            | some k =>
                if k != key then .error (.assertion "Key not at end of common_path")
                else
                  let wrap := fun (x : Option (List Op)) => if nonEmpty x then some [opPatchKey key (x.getD [])] else some []
                  go { d with path := d.path.dropLast, localDiff := wrap d.localDiff, remoteDiff := wrap d.remoteDiff,
                              customDiff := if d.action == "custom" then wrap d.customDiff else d.customDiff } rest
      go d prefix_.reverse

def combFuel : Nat := 100000

/-- `collect_diffs` (`adjust_patch_level` returns its argument unchanged) -/
def collectDiffs (path : List PKey) (ds : List MD) : Except Err (List Op × List Op) := do
  if !ds.all (fun d => isPrefixOf path d.path) then throw (.assertion "common_path[:n] == target_path")
  let l := ds.foldl (fun acc d => acc ++ d.localDiff.getD []) []
  let r := ds.foldl (fun acc d => acc ++ d.remoteDiff.getD []) []
  pure (← combinePatches combFuel l, ← combinePatches combFuel r)

/-- `collect_conflicting_diffs` -/
def collectConflicting (path : List PKey) (ds : List MD) : Except Err (List Op × List Op) :=
  ds.foldlM (fun (acc : List Op × List Op) d =>
    if !d.conflict then pure acc
    else if !isPrefixOf path d.path then throw (.assertion "common_path[:n] == target_path")
    else match d.localDiff, d.remoteDiff with
      | some l, some r => pure (acc.1 ++ l, acc.2 ++ r)
      | _, _ => throw (.typeErr "'NoneType' object is not iterable")) ([], [])

def entryKeys (d : MD) : List PKey :=
  ((d.localDiff.getD []) ++ (d.remoteDiff.getD []) ++ (d.customDiff.getD [])).filterMap entryKey

def dedupKeys : List PKey → List PKey
  | [] => []
  | k :: rest => k :: (dedupKeys rest).filter (· != k)

/-- insert a decision into the (sorted by key) index -/
def indexInsert (k : PKey) (d : MD) : List (PKey × List MD) → Except Err (List (PKey × List MD))
  | [] => .ok [(k, [d])]
  | (k', ds) :: rest =>
      if k' == k then .ok ((k', ds ++ [d]) :: rest)
      else match PKey.lt k k' with
        | none => .error (.typeErr "'<' not supported between instances of 'str' and 'int'")
        | some true => .ok ((k, [d]) :: (k', ds) :: rest)
        | some false => do
            let r ← indexInsert k d rest
            pure ((k', ds) :: r)

/-- `sorted(bundle_decisions_by_index(base_path, decisions).items())` -/
def bundleByIndex (path : List PKey) (ds : List MD) : Except Err (List (PKey × List MD)) :=
  ds.foldlM (fun acc d => do
    if !isPrefixOf path d.path then throw (.assertion "decision has incorrect base path")
    if d.path.length > path.length then
      let pre := d.path.drop path.length
      let key := pre.head!
      let d' ← pushPatchDecision d pre
      indexInsert key d' acc
    else
      match dedupKeys (entryKeys d) with
      | [k] => indexInsert k d acc
      | _ => throw (.assertion "len(keys) == 1")) []

/-! ### output strategies -/

def outputMarker (text : String) : J :=
  .obj [("name", jstr "stderr"), ("output_type", jstr "stream"), ("text", jstr text)]

def cellMarker (text : String) : J :=
  .obj [("cell_type", jstr "markdown"), ("id", jstr "<new-id>"), ("metadata", .obj []),
        ("source", jstr ("<span style=\"color:red\"><b>" ++ text ++ "</b></span>"))]

def m0 : String := "<<<<<<<"
def m1 : String := "======="
def m2 : String := ">>>>>>>"

def isPatchOp : Op → Bool
  | .patchI _ _ => true
  | .patchK _ _ => true
  | _ => false
def isRemoverange : Op → Bool
  | .removerange _ _ => true
  | _ => false

def opDiff : Op → List Op
  | .patchI _ d => d
  | .patchK _ d => d
  | _ => []

def valuelist : Op → List J
  | .addrange _ vs => vs
  | .addchars _ cs => cs.map (fun c => J.str [c])
  | _ => []

/-- `get_outputs_and_note` -/
def outputsAndNote (base : Option J) (removes patches : List Op) : Except Err (List J × String) :=
  if !removes.isEmpty then .ok ([], " <removed>")
  else if !patches.isEmpty then
    match patches with
    | [e] => do
        let b ← match base with
          | some (.obj kvs) => pure kvs
          | _ => throw (.typeErr "'NoneType' object has no attribute 'get'")
        let (mkeys, keys) ← (opDiff e).foldlM (fun (acc : List String × List String) d =>
          match entryKey d with
          | some (.s "data") =>
              if isPatchOp d then pure (acc.1 ++ (opDiff d).filterMap (fun f => match entryKey f with
                | some (.s k) => some k
                | _ => none), acc.2)
              else throw (.assertion "d.op == DiffOp.PATCH")
          | some (.s k) => pure (acc.1, acc.2 ++ [k])
          | _ => pure (acc.1, acc.2 ++ ["?"])) ([], [])
        let ukeys := match lookupKV "data" b with
          | some (.obj dk) => if dk.isEmpty then [] else (dk.map (·.1)).filter (fun k => !mkeys.contains k)
          | _ => []
        let notes := (if !mkeys.isEmpty || !keys.isEmpty then ["modified: " ++ ", ".intercalate (sortStrs mkeys)] else []) ++
                     (if !ukeys.isEmpty then ["unchanged: " ++ ", ".intercalate (sortStrs ukeys)] else [])
        let note := if notes.isEmpty then "" else " <" ++ "; ".intercalate notes ++ ">"
        let p ← patch (.obj b) (opDiff e)
        pure ([p], note)
    | _ => .error (.value "too many values to unpack")
  else match base with
    | some b => .ok ([b], " <unchanged>")
    | none => .ok ([.null], " <unchanged>")

/-- `make_inline_output_conflict` -/
def inlineOutputConflict (base : Option J) (d0 d1 : List Op) : Except Err (List J × Bool) := do
  let lp := d0.filter isPatchOp
  let rp := d1.filter isPatchOp
  let li := d0.filter isAddrange
  let ri := d1.filter isAddrange
  let lr := d0.filter isRemoverange
  let rr := d1.filter isRemoverange
  if lp.length + li.length + lr.length != d0.length then throw (.assertion "len(lpatches) + len(linserts) + len(lremoves) == len(d0)")
  if rp.length + ri.length + rr.length != d1.length then throw (.assertion "len(rpatches) + len(rinserts) + len(rremoves) == len(d1)")
  let ins := if !li.isEmpty || !ri.isEmpty then
      [outputMarker (m0 ++ " local\n")] ++ li.flatMap valuelist ++ [outputMarker (m1 ++ "\n")] ++
      ri.flatMap valuelist ++ [outputMarker (m2 ++ " remote\n")]
    else []
  let keepBase := lr.isEmpty && rr.isEmpty && lp.isEmpty && rp.isEmpty
  if !lr.isEmpty && !rr.isEmpty then pure (ins, keepBase)
  else if !keepBase then do
    if !lr.isEmpty && !lp.isEmpty then throw (.assertion "not (lremoves and lpatches)")
    if !rr.isEmpty && !rp.isEmpty then throw (.assertion "not (rremoves and rpatches)")
    let (lo, ln) ← outputsAndNote base lr lp
    let (ro, rn) ← outputsAndNote base rr rp
    pure (ins ++ [outputMarker (m0 ++ " local" ++ ln ++ "\n")] ++ lo ++ [outputMarker (m1 ++ "\n")] ++ ro ++
          [outputMarker (m2 ++ " remote" ++ rn ++ "\n")], keepBase)
  else pure (ins, keepBase)

def keyNat : PKey → Except Err Nat
  | .i n => .ok n
  | .s _ => .error (.typeErr "'<' not supported between instances of 'int' and 'str'")

/-- `resolve_strategy_remove_outputs` -/
def removeOutputs (path : List PKey) (b : B) : Except Err B := do
  let idx ← bundleByIndex path b
  idx.foldlM (fun (acc : B) (kd : PKey × List MD) => do
    let (key, decs) := kd
    if !decs.any (·.conflict) then pure (acc ++ decs)
    else do
      let (ld, rd) ← collectDiffs path decs
      let cd ← match ld, rd with
        | [l], [r] => if isAddrange l && isAddrange r then pure [] else do pure [Op.removerange (← keyNat key) 1]
        | _, _ => do pure [Op.removerange (← keyNat key) 1]
      pure (customD acc path (some ld) (some rd) (some cd) false (some "remove"))) []

/-- `resolve_strategy_inline_outputs` -/
def inlineOutputs (path : List PKey) (outputs : List J) (b : B) : Except Err B := do
  let idx ← bundleByIndex path b
  idx.foldlM (fun (acc : B) (kd : PKey × List MD) => do
    let (key, decs) := kd
    if !decs.any (·.conflict) then pure (acc ++ decs)
    else do
      let (ld, rd) ← collectDiffs path decs
      let k ← keyNat key
      let (inl, keep) ← inlineOutputConflict (if outputs.isEmpty then none else outputs[k]?) ld rd
      let cd := [Op.addrange k inl] ++ (if keep then [] else [Op.removerange k 1])
      pure (customD acc path (some ld) (some rd) (some cd) true (some "inline-outputs"))) []

/-! ### metadata / attachments -/

/-- `resolve_strategy_record_conflicts` -/
def recordConflicts (path : List PKey) (base : List (String × J)) (b : B) : Except Err B := do
  let pushed ← b.mapM (fun d => pushPatchDecision d (d.path.drop path.length))
  let (lc, rc) ← collectConflicting path pushed
  let lc ← combinePatches combFuel lc
  let rc ← combinePatches combFuel rc
  let kept := pushed.filter (fun d => !d.conflict)
  -- a change either side made to a previous record is superseded by the record written below
  let kept := kept.filter (fun d => !((d.localDiff.getD []) ++ (d.remoteDiff.getD [])).any
    (fun e => entryKey e == some (.s "nbdime-conflicts")))
  let cdict : J := .obj [("local_diff", .arr (opsToJ lc)), ("remote_diff", .arr (opsToJ rc))]
  let op := if hasKey "nbdime-conflicts" base then Op.replace "nbdime-conflicts" cdict else Op.add "nbdime-conflicts" cdict
  pure (customD kept path (some lc) (some rc) (some [op]) true (some "record-conflict"))

def lastByKey (k : String) (ds : List Op) : Option Op :=
  (ds.filter (fun e => entryKey e == some (.s k))).getLast?

def strKeys (ds : List Op) : List String :=
  ds.filterMap (fun e => match entryKey e with
    | some (.s k) => some k
    | _ => none)

/-- value a side gives an attachment -/
def attachValue (base : Option J) : Op → Except Err J
  | .add _ v => .ok v
  | .replace _ v => .ok v
  | .patchK _ d => match base with
      | some bv => patch bv d
      | none => .error (.value "Invalid object type to patch")
  | _ => .error (.assertion "ld.op == DiffOp.PATCH")

def isRemoveOp : Op → Bool
  | .remove _ => true
  | _ => false
def isAddOp : Op → Bool
  | .add _ _ => true
  | _ => false

/-- `resolve_strategy_inline_attachments` -/
def inlineAttachments (path : List PKey) (atts : List (String × J)) (b : B) : Except Err B := do
  let (lc, rc) ← collectConflicting path b
  let kept := b.filter (fun d => !d.conflict)
  let keys := sortStrs (strKeys lc ++ strKeys rc)
  keys.foldlM (fun (acc : B) key => do
    let ld ← match lastByKey key lc with
      | some e => pure e
      | none => throw (.key key)
    let rd ← match lastByKey key rc with
      | some e => pure e
      | none => throw (.key key)
    let strat := some "inline-attachments"
    if isRemoveOp ld then
      if isRemoveOp rd then throw (.assertion "rd.op != DiffOp.REMOVE")
      else remoteD acc path (some [ld]) (some [rd]) true strat
    else if isRemoveOp rd then localD acc path (some [ld]) (some [rd]) true strat
    else do
      let base := lookupKV key atts
      if isAddOp ld && !isAddOp rd then throw (.assertion "rd.op == DiffOp.ADD")
      let lv ← attachValue base ld
      let rv ← attachValue base rd
      let ln := "LOCAL_" ++ key
      let rn := "REMOTE_" ++ key
      let cd := [if hasKey ln atts then Op.replace ln lv else Op.add ln lv,
                 if hasKey rn atts then Op.replace rn rv else Op.add rn rv]
      pure (customD acc path (some [ld]) (some [rd]) (some cd) true strat)) kept

/-! ### sources and cells -/

/-- `resolve_strategy_inline_source` -/
def inlineSource (render : Render) (path : List PKey) (base : List Char) (ld rd : MDiff) : Except Err B :=
  let strat := some "inline-source"
  match ld, rd with
  | .parentDeleted, .d r =>
      sequential "local_then_remote" [] path (some [.addrange 0 [jstr "<<<<<<< LOCAL CELL DELETED >>>>>>>\n"]]) (some r) true strat
  | .parentDeleted, .parentDeleted =>
      .error (.typeErr "ParentDeleted on both sides")
  | .d l, .parentDeleted =>
      sequential "remote_then_local" [] path (some l) (some [.addrange 0 [jstr "<<<<<<< REMOTE CELL DELETED >>>>>>>\n"]]) true strat
  | .d l, .d r => do
      let lv ← patchString base l
      let rv ← patchString base r
      let (merged, status) ← render base lv rv
      match path.getLast? with
      | some (.s "source") =>
          pure (customD [] path.dropLast (some [.patchK "source" l]) (some [.patchK "source" r])
                  (some [.replace "source" (.str merged)]) (status != 0) strat)
      | _ => throw (.assertion "path[-1] == \"source\"")

def rmLength : Op → Nat
  | .removerange _ n => n
  | _ => 0

/-- the asserts shared by `_merge_concurrent_inserts` and `make_inline_cell_conflict` -/
def insertShapeOk (d : List Op) : Bool :=
  match d with
  | [a] => isAddrange a
  | [a, r] => isAddrange a && isRemoverange r
  | _ => false

/-- `make_inline_cell_conflict` -/
def inlineCellConflict (cells : List J) (ld rd : List Op) : Except Err (List J) :=
  if !(insertShapeOk ld && insertShapeOk rd) then .error (.assertion "make_inline_cell_conflict: diff shapes")
  else
    let lrem := (ld[1]?.map rmLength).getD 0
    let rrem := (rd[1]?.map rmLength).getD 0
    let start := (ld[0]?.map Op.idx).getD 0
    let lkeep := lrem - rrem
    let rkeep := rrem - lrem
    let lcells := (ld[0]?.map valuelist).getD [] ++ slice cells start (start + lkeep)
    let rcells := (rd[0]?.map valuelist).getD [] ++ slice cells start (start + rkeep)
    .ok ([cellMarker (m0 ++ " local")] ++ lcells ++ [cellMarker m1] ++ rcells ++ [cellMarker (m2 ++ " remote")])

/-- merged cell for conflicting similar inserts -/
def similarCell (render : Render) (lcell rcell : List (String × J)) (keys : List String) : Except Err J := do
  let cell : List (String × J) := lcell.filter (fun kv => !keys.contains kv.1)
  let cell := (rcell.filter (fun kv => !keys.contains kv.1 && !hasKey kv.1 lcell)).foldl (fun acc kv => insertKV kv.1 kv.2 acc) cell
  let need := fun (c : List (String × J)) (k : String) => match lookupKV k c with
    | some v => Except.ok v
    | none => Except.error (Err.key k)
  let cell ← keys.foldlM (fun (cell : List (String × J)) k => do
    if k == "source" then
      let lv ← need lcell k
      let rv ← need rcell k
      match lv, rv with
      | .str l, .str r => do
          let (m, _) ← render [] l r
          pure (insertKV k (.str m) cell)
      | _, _ => throw (.typeErr "source is not a string")
    else if k == "metadata" then
      let lv ← need lcell k
      let rv ← need rcell k
      pure (insertKV k (.obj [("local_metadata", lv), ("remote_metadata", rv)]) cell)
    else if k == "id" then
      let v ← if hasKey k lcell then need lcell k else need rcell k
      pure (insertKV k v cell)
    else if k == "execution_count" then pure (insertKV k .null cell)
    else if k == "outputs" then pure (insertKV k (.arr []) cell)
    else if k == "attachments" then
      let r := match lookupKV k rcell with
        | some (.obj o) => o
        | _ => []
      let l := match lookupKV k lcell with
        | some (.obj o) => o
        | _ => []
      pure (insertKV k (.obj (l.foldl (fun acc kv => insertKV kv.1 kv.2 acc) r)) cell)
    else throw (.value "Conflict on unrecognized key")) cell
  pure (.obj cell)

/-- `resolve_strategy_inline_recurse` -/
def inlineRecurse (render : Render) (path : List PKey) (base : List J) (b : B) : Except Err B :=
  b.foldlM (fun (acc : B) d => do
    if !d.conflict then return acc ++ [d]
    if !(nonEmpty d.localDiff && nonEmpty d.remoteDiff) then return acc ++ [d]
    let ld := d.localDiff.getD []
    let rd := d.remoteDiff.getD []
    let (la, lp) := chunkTypename ld
    let (ra, rp) := chunkTypename rd
    let ct := la ++ lp ++ "/" ++ ra ++ rp
    if !(["AR/A", "A/AR", "A/A", "AR/AR"].contains ct) || d.path != [PKey.s "cells"] then return acc ++ [d]
    let strat := some "inline-cells"
    match d.similarInsert with
    | none => do
        let cells ← inlineCellConflict base ld rd
        let rdiff := if ld.length > 1 then (ld.drop 1).take 1 else if rd.length > 1 then (rd.drop 1).take 1 else []
        pure (customD acc path (some ld) (some rd) (some ([Op.addrange ((ld[0]?.map Op.idx).getD 0) cells] ++ rdiff)) true strat)
    | some lr => do
        if ct != "A/A" then throw (.assertion "Unexpected chunk type")
        match ld, rd with
        | [l0], [r0] =>
          match valuelist l0, valuelist r0 with
          | [.obj lcell], [.obj rcell] => do
              let e0 ← match lr with
                | e :: _ => pure e
                | [] => throw (.index "list index out of range")
              if !isPatchOp e0 then throw (.assertion "lr_diff[0].op == 'patch'")
              match lookupKV "cell_type" lcell, lookupKV "cell_type" rcell with
              | some lt, some rt => if !J.pyEq lt rt then throw (.assertion "cell types cannot differ")
              | _, _ => throw (.key "cell_type")
              let cell ← similarCell render lcell rcell (strKeys (opDiff e0))
              pure (customD acc path (some ld) (some rd) (some [Op.addrange l0.idx [cell]]) true strat)
          | _, _ => throw (.assertion "Unexpected diff length. Expected both local and remote inserts to have length 1")
        | _, _ => throw (.assertion "Unexpected diff length")) []

/-! ### dispatch -/

def guardOk (strategy : Option String) (b : B) : Bool :=
  truthy strategy && strategy != some "mergetool" && hasConflicted b

/-- `strategy.startswith("use-")` -/
def isUse (s : String) : Bool :=
  match s.toList with
  | 'u' :: 's' :: 'e' :: '-' :: _ => true
  | _ => false

/-- `strategy.replace("use-", "")` on characters: every non-overlapping occurrence, left to right -/
def dropUse : List Char → List Char
  | 'u' :: 's' :: 'e' :: '-' :: rest => dropUse rest
  | c :: rest => c :: dropUse rest
  | [] => []

/-- `resolve_strategy_generic` -/
def resolveGeneric (b : B) (strategy : Option String) : B :=
  if !guardOk strategy b then b
  else
    let s := strategy.getD ""
    if isUse s then
      let action := String.ofList (dropUse s.toList)
      b.map (fun d => if d.conflict && !truthy d.strategy then { d with action := action, conflict := false } else d)
    else b

/-- `resolve_conflicted_decisions_list` -/
def resolveList (render : Render) (path : List PKey) (base : List J) (b : B) (strategy : Option String) :
    Except Err B :=
  if !guardOk strategy b then .ok b
  else
    let s := strategy.getD ""
    if s == "inline-outputs" then inlineOutputs path base b
    else if s == "inline-cells" then inlineRecurse render path base b
    else if s == "remove" then removeOutputs path b
    else if s == "union" then
      b.mapM (fun d => do
        if d.conflict then
          let sub ← getAt (.arr base) (d.path.drop path.length)
          match sub with
          | .obj _ => pure d
          | _ => pure { d with action := "local_then_remote", conflict := false }
        else pure d)
    else if s == "clear-all" then do
      let (ld, rd) ← collectDiffs path b
      pure (customD [] path (some ld) (some rd) (some [.removerange 0 base.length]) false (some "clear-all"))
    else if s == "clear" then .ok b
    else .ok (resolveGeneric b strategy)

/-- `resolve_conflicted_decisions_dict` -/
def resolveDict (path : List PKey) (base : List (String × J)) (b : B) (strategy : Option String) :
    Except Err B :=
  if !guardOk strategy b then .ok b
  else
    let s := strategy.getD ""
    if s == "record-conflict" then recordConflicts path base b
    else if s == "inline-attachments" then inlineAttachments path base b
    else if s == "union" then .ok b
    else .ok (resolveGeneric b strategy)

/-- `resolve_conflicted_decisions_strings` -/
def resolveStrings (b : B) (strategy : Option String) : B :=
  if !guardOk strategy b then b
  else
    let s := strategy.getD ""
    if s == "clear" then
      b.map (fun d => if d.conflict && !truthy d.strategy then { d with action := "clear", conflict := false } else d)
    else if s == "inline-source" then b
    else resolveGeneric b strategy

end Merge
end Nbdime
