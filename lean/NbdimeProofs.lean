import NbdimeProofs.Lemmas.SeqAbstract
import NbdimeProofs.Lemmas.SeqBridge
import NbdimeProofs.Properties.C02
