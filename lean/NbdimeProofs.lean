import NbdimeProofs.Lemmas.SeqAbstract
import NbdimeProofs.Lemmas.SeqBridge
import NbdimeProofs.Properties.C02
import NbdimeProofs.Properties.C14
import NbdimeProofs.Properties.C12
import NbdimeProofs.Lemmas.KV
import NbdimeProofs.Properties.C18
import NbdimeProofs.Properties.C19
