#!/bin/bash
# verify seeded changes: patch applies to /repo HEAD, baseline passes with it, demo fails with it and passes without
WT=/tmp/seedverify
git -C /repo worktree remove --force $WT 2>/dev/null
git -C /repo worktree add --detach $WT HEAD >/dev/null 2>&1
for d in "$@"; do
  id=$(basename $d)
  p=$d/patch.diff; demo=$d/demo.py
  [ -f $p ] || { echo "$id: no patch"; continue; }
  git -C $WT checkout -q -- . ; git -C $WT clean -fdq
  PYTHONPATH=$WT timeout 900 /venv/bin/python $demo >/tmp/seedverify.$id.clean.log 2>&1; c0=$?
  git -C $WT apply $p || { echo "$id: PATCH DOES NOT APPLY"; continue; }
  PYTHONPATH=$WT timeout 900 /venv/bin/python $demo >/tmp/seedverify.$id.mut.log 2>&1; c1=$?
  b=$(/verif/tools/baseline.py $WT | head -1)
  echo "$id: demo clean=$c0 mutated=$c1 | $b"
done
git -C /repo worktree remove --force $WT
