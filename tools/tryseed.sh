#!/bin/bash
# usage: tryseed.sh <patch.diff> <check args...>   -- applies a seeded change to /repo, runs ./check, reverts
set -u
patch="$1"; shift
git -C /repo apply "$patch" || { echo "PATCH DOES NOT APPLY"; exit 3; }
( cd /verif && ./check "$@" ) ; rc=$?
git -C /repo checkout -- . 
echo "check exit=$rc"
exit $rc
