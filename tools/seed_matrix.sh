#!/bin/bash
# usage: seed_matrix.sh "<VERIF_SEED values>" [pattern]  -- every seeded change x every given VERIF_SEED: does the quick check of its
# property exit 1?  (no baseline / demonstration re-confirmation: that is run_seeds.sh). Output: seeded/MATRIX.tsv
cd "$(dirname "$0")/.."
REPO=${VERIF_REPO:-/repo}
SEEDS=${1:-"1 2 3"}
PAT=${2:-.}
: > seeded/MATRIX.tsv
for d in seeded/*/; do
  d=$(realpath $d); name=$(basename $d); id=${name%%-*}
  [ -f $d/patch.diff ] || continue
  echo "$name" | grep -Eq "$PAT" || continue
  if ! git -C $REPO apply $d/patch.diff 2>/dev/null; then echo -e "$name\tPATCH-DOES-NOT-APPLY" | tee -a seeded/MATRIX.tsv; continue; fi
  row="$name"
  for s in $SEEDS; do
    VERIF_SEED=$s timeout 1800 ./check $id quick >/dev/null 2>&1; rc=$?
    row="$row\tseed$s=$rc"
  done
  git -C $REPO checkout -- .
  echo -e "$row" | tee -a seeded/MATRIX.tsv
done
