#!/bin/bash
# usage: allchecks.sh <tier> <seed...>  -- runs every claimed check for each seed, prints one line per run
cd "$(dirname "$0")/.."
tier=$1; shift
for s in "$@"; do
  for c in C01 C02 C03 C04 C05 C06 C07 C08 C09 C10 C11 C12 C13 C14 C15 C16 C17 C18 C19 C20; do
    out=$(VERIF_SEED=$s timeout 7200 ./check $c $tier 2>&1); rc=$?
    echo "seed=$s $c rc=$rc $(echo "$out" | grep -v KNOWN | tail -1 | cut -c1-150)"
    [ $rc -ne 0 ] && echo "$out" | grep -A1 "^VIOLATION\|INFRA" | head -6 | cut -c1-300
  done
done
