#!/venv/bin/python
"""Run the pinned baseline suite in a checkout of jupyter/nbdime and compare with BASELINE.json.
usage: baseline.py [repo_dir]   (exit 0 iff every stable_pass test passes)"""
import json, os, subprocess, sys, tempfile, xml.etree.ElementTree as ET
repo = os.path.abspath(sys.argv[1] if len(sys.argv) > 1 else '/repo')
base = json.load(open('/root/.vp/BASELINE.json'))
with tempfile.TemporaryDirectory() as td:
    xmlf = os.path.join(td, 'j.xml')
    env = dict(os.environ); env.pop('NBDIME_VERIF', None)
    subprocess.run(['/venv/bin/python', '-m', 'pytest', '-q', '-p', 'no:cacheprovider', '--timeout=900',
                    '--continue-on-collection-errors', '--junitxml=' + xmlf], cwd=repo, env=env,
                   stdout=subprocess.DEVNULL, stderr=subprocess.DEVNULL)
    passed = set()
    for tc in ET.parse(xmlf).getroot().iter('testcase'):
        if not any(ch.tag in ('failure', 'error', 'skipped') for ch in tc):
            passed.add(tc.get('classname') + '::' + tc.get('name'))
missing = [t for t in base['stable_pass'] if t not in passed]
print('stable_pass', len(base['stable_pass']), 'passed-now', len(passed), 'regressed', len(missing))
for t in missing[:40]:
    print('  REGRESSED', t)
sys.exit(1 if missing else 0)
