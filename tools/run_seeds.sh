#!/bin/bash
# For every seeded change: confirm it (baseline still passes, its demonstration fails with it and passes
# without it, in a scratch worktree of /repo HEAD), then apply it to /repo, run the property's quick check
# (must exit 1), and undo it. Results: seeded/RESULTS.tsv
cd "$(dirname "$0")/.."
REPO=${VERIF_REPO:-/repo}
WT=/tmp/seedverify-$$
git -C /repo worktree add --detach $WT HEAD >/dev/null 2>&1
# optional argument: a grep -E pattern on the seed names; only those rows are refreshed
PAT=${1:-.}
touch seeded/RESULTS.tsv
for d in seeded/*/; do
  d=$(realpath $d); name=$(basename $d); id=${name%%-*}
  [ -f $d/patch.diff ] || continue
  echo "$name" | grep -Eq "$PAT" || continue
  grep -v "^$name	" seeded/RESULTS.tsv > seeded/RESULTS.tsv.tmp; mv seeded/RESULTS.tsv.tmp seeded/RESULTS.tsv
  if grep -q '"neutralised"' $d/meta.json; then
    git -C $WT checkout -q -- . ; git -C $WT clean -fdq
    git -C $WT apply $d/patch.diff 2>/dev/null; PYTHONPATH=$WT timeout 900 /venv/bin/python $d/demo.py >/dev/null 2>&1; c1=$?
    echo -e "$name\tNEUTRALISED-BY-A-FIX (demonstration with the change applied exits $c1)" | tee -a seeded/RESULTS.tsv; continue
  fi
  git -C $WT checkout -q -- . ; git -C $WT clean -fdq
  PYTHONPATH=$WT timeout 900 /venv/bin/python $d/demo.py >/dev/null 2>&1; c0=$?
  if ! git -C $WT apply $d/patch.diff 2>/dev/null; then echo -e "$name\tPATCH-DOES-NOT-APPLY" | tee -a seeded/RESULTS.tsv; continue; fi
  PYTHONPATH=$WT timeout 900 /venv/bin/python $d/demo.py >/dev/null 2>&1; c1=$?
  base=$(/verif/tools/baseline.py $WT | head -1 | sed 's/.*regressed //')
  git -C $REPO apply $d/patch.diff
  out=$(./check $id quick 2>&1); rc=$?
  git -C $REPO checkout -- .
  first=$(echo "$out" | grep -A1 "^VIOLATION" | sed -n 2p | cut -c1-140)
  echo -e "$name\tdemo_clean=$c0\tdemo_seeded=$c1\tbaseline_regressed=$base\tcheck_exit=$rc\t$first" | tee -a seeded/RESULTS.tsv
done
sort -o seeded/RESULTS.tsv seeded/RESULTS.tsv
git -C /repo worktree remove --force $WT
