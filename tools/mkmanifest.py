#!/venv/bin/python
"""Regenerates MANIFEST.json from the table below (keeps it valid and current)."""
import json, os
HERE = os.path.dirname(os.path.dirname(os.path.abspath(__file__)))
props = [json.loads(l) for l in open(os.path.join(HERE, 'properties.jsonl'))]

# pid -> (technique, level text, level note, design ref)
CLAIMED = {
 'C01': ('Lean 4 theorems on the hand-written differ/patcher model + differential correspondence with diff_notebooks/patch_notebook under the live differ tables',
         'Lean theorems about the executable model of the notebook differ (multilevel snakes, output/mime/attachment differs) and the independent patcher; the live differ tables are extracted on every run, the similarity heuristics and difflib are recorded oracles, and model and code are compared on generated notebook pairs, fixture pairs and through the nbdiff --out / nbpatch file interface.',
         'Trusted: Lean kernel, axioms {propext, Classical.choice, Quot.sound}, harness codec, oracle contracts K1/K4 (checked on recorded answers), nbformat read/write. Proved so far: sequence-level round trip for every matching; the full recursive statement is stated (C02_roundtrip_statement) and not yet proved, so beyond the sequence level the claim rests on the correspondence runs.',
         '5/C01'),
 'C08': ('Lean theorems over any step list of the extracted shape (exit 0 iff no fault and no conflict; output untouched for every fault before the write; never success on a fault) + AST extraction of main_merge / agreed deletion / driver redirection discharged by `decide` + fault-injection correspondence on the real commands',
         'The run of nbmerge is modelled as a step sequence over a small world (output untouched / truncated / partial / complete / removed; exit status); for ANY step list made of non-mutating steps (including the rc computation) followed by open-output, write, return-rc, Lean proves: no fault => exit status = (1 if conflict else 0) and the complete result at the output; any fault (exception or kill) at any step before the write => output untouched and non-zero exit; any fault anywhere => never exit 0. The step lists of main_merge and _handle_agreed_deletion, the definition of the return code and the driver\'s `out := local` redirection are extracted from the source on every run and checked by generated `decide` obligations. Every single fault (I/O error, MemoryError, KeyboardInterrupt, SIGKILL) is injected at every step boundary (three reads, two diffs, decide, apply, serialise, open, write, remove) of the real nbmerge and git-nbmergedriver over generated triples incl. /dev/null placeholders and empty base files, and exit status / output bytes are compared with the model; fault-free runs are compared with the library merge.',
         'Partial by nature: a torn write inside one write(2) and OS kill timing are represented by the `partial_` state only (exit != 0 is all that is claimed there); Python\'s mapping of uncaught exceptions/signals to exit statuses and nbformat.write (serialise before open) are inputs. Trusted: Lean kernel, axioms as above, the AST extractor.',
         '5/C08'),
 'C11': ('decidable WF predicate defined in the Lean model, run by the driver on every diff the implementation produces; jsonschema + JSON round trip; Lean theorems connect WF-shaped diffs with the patcher',
         'The well-formedness notion of the property is a decidable predicate in the Lean model (NbdimeModel.WF); it is evaluated on every diff produced by the generic differ, the notebook differ and inside merge decisions, next to validation against the published diff schema and a JSON round trip.',
         'Trusted: Lean kernel, axioms as above, jsonschema (Draft4) on the repository schema file. The theorem that every diff the *model* differ produces is WF is not yet proved; WF of implementation output is checked per produced diff (bounded by generated cases).',
         '5/C11'),
 'C12': ('Lean induction over call histories of a state-machine model of the differ + history correspondence (one interpreter vs pristine/fresh interpreters vs the Lean state machine)',
         'The differ is modelled as a state machine whose only state is the table of differ overrides; Lean proves by induction over arbitrary finite histories that any call is answered as after replaying only the configuration calls since the last reset (C12_history_free), that diff calls write no state and that reset restores the initial state. The model is tied to the code by running generated histories (diff, merge under random strategies, ignore configuration, reset) in one interpreter, call by call in pristine interpreters (forked before anything ran, plus a sample of freshly spawned ones), and through the Lean state machine with the recorded oracle answers.',
         'Trusted: Lean kernel, axioms as above; oracle contract K1 (the lru_cache-d similarity predicates are functions of their arguments) is checked on recorded answers, not proved; merge calls are assumed not to write differ state in the model (checked by the fresh-vs-history comparison of every later call). Fork-from-pristine stands in for a fresh interpreter for most calls; a sample is re-run in real fresh interpreters.',
         '5/C12'),
 'C19': ('Lean theorem that layered recursive updates along the class linearisation equal "most specific section that sets it, else most specific declared default" + per-run extraction of the class table discharged by `decide` against the documented order + correspondence of build_config and the entry-point parsers',
         'Lean proves, for every entry point table, every assignment of scalar values to any sections in any files and every option, that the value build_config computes is that of the most specific section (class-linearisation order) that sets it, else the default of the most specific class declaring it (C19_resolve_scalar), that a flag always wins and that the file read last (cwd) decides. The class table (sections, supported options, MRO of all 11 entry points) is extracted from the live classes on every run and a generated `decide` obligation checks that wherever the linearisation deviates from the documented specificity order no option is shared (C19_tableOk_sound says why that suffices). build_config for all entry points and the nbdiff/nbmerge/nbshow parsers are run in-process over generated section/file/flag assignments (three configuration directories, interleaved `--config` views) and compared with the Lean model and an executable statement of the documented rule.',
         'Trusted: Lean kernel, axioms as above; traitlets/argparse/jupyter_core path order are inputs; the theorem covers scalar option values (the nested Ignore mapping is covered by the correspondence and the documented-rule comparison only). Known finding F-global (Global section inherited by no entry point) is matched by a classifier.',
         '5/C19'),
 'C17': ('Lean theorems on a model of changed_notebooks/_get_diff_entry_stream/pushd (result is a position-independent filterMap of the reported entries; cwd and file system restored) + refutation witness for the unrepaired pushd + correspondence against real repositories and git',
         'Lean proves for every entry list, ref pair and invocation directory that the examined pairs are exactly a per-entry filterMap of what git reports (each side read from the same place, non-notebooks skipped) and that the working directory is unchanged afterwards; the original `old = os.curdir` context manager is refuted by a kernel-checked two-entry witness (the defect was replayed on the code and repaired). Repositories are built by random histories with staged and unstaged changes; changed_notebooks runs in its own interpreter from the root or a subdirectory, with and without path filters, for all four ref-pair kinds, and is compared with `git diff --name-status -M -z` + `git show` and with the model fed the same entries.',
         'Trusted: Lean kernel, axioms as above; git and GitPython are inputs of the model (the entry list and blob presence), their agreement with `git diff --name-status` is sampled; git filters (apply_possible_filter) are not configured in the scratch repositories and not modelled.',
         '5/C17'),
 'C18': ('Lean theorems (idempotence, ownership, foreign-tool preservation, closure under command sequences by induction) on a git-config/attributes model + per-run AST extraction of the enable functions\' writes discharged by `decide` + correspondence against real git',
         'The eight enable/disable functions are modelled as transformers of a config store and an attributes file; Lean proves idempotence of every enable command, that no key outside nbdime\'s own keys/sections ever changes under any command sequence, that merge.tool / diff.guitool pointing at another tool survive every command without --set-default (and every sequence of such commands), that disable leaves no driver key, and that the attributes file keeps its content and gains at most the two nbdime lines. The git-config writes are extracted from the source by an AST walk on every run and compared with the model tables by generated `decide` obligations; command sequences run through the real entry points against real git (scratch HOME, repository and global scope) and are compared step by step with the model, with the property clauses also evaluated directly on the observed git state.',
         'Trusted: Lean kernel, axioms as above; git itself (single-valued keys; --unset/--remove-section semantics) is an input of the model, tied only by the sampled correspondence; system scope is not exercised; attributes content is chunked into nbdime lines and foreign text by the harness.',
         '5/C18'),
 'C14': ('Lean theorems about ignore/ignoreKeys entries of the model differ + per-run extraction of the 64 ignore tables discharged by `decide` against the category predicate + correspondence under every configuration',
         'For every oracle, configuration and document: an `ignore` table entry contributes no diff entry and `ignoreKeys` removes every entry with an ignored key (Lean theorems); the tables that set_notebook_diff_targets builds for all 64 subsets are extracted from the live code on every run and checked by a generated `decide` obligation against the category predicate C14.tableOk; the three clauses (hidden / faithful / only-ignored => empty) are evaluated on the implementation for all 64 subsets x {negative flags, positive flags, config booleans, Ignore mapping with True, with key lists, key lists + flag} through the real nbdiff parser glue.',
         'Trusted: Lean kernel, axioms as above, the table extractor (harness/nbcfg.py), the category specification written from the CLI help text. Known findings F-ign-id, F-ign-attkey, F-ign-align are matched by classifiers; the hidden-clause theorem covers keys present on both sides with non-atomic values (exactly where the code consults the table), which is why those findings exist.',
         '5/C14'),
 'C02': ('Lean 4 theorems on a hand-written model of diff/patch + differential correspondence with nbdime.diff/patch',
         'Lean theorems about the executable model of the generic differ and the independent patcher (round trip for every LCS matching, every oracle answer); the model is tied to /repo by running nbdime.diff/nbdime.patch and the model on the same generated and exhaustively enumerated pairs on every run, and the property itself is evaluated on the implementation with the model patcher as independent reference.',
         'Trusted: Lean kernel, axioms {propext, Classical.choice, Quot.sound}, harness codec, CPython difflib and the similarity heuristics as oracles (contracts K1,K4 checked on recorded answers). Known finding F-eq (numeric aliasing by Python ==) is matched by a classifier; theorems carry the NoAlias hypothesis or conclude pyEq.',
         '5/C02'),
}
NOT_YET = 'check not built yet in this session (planned: see DESIGN.md section 5); not a claim that the technique cannot apply'

checks, na = [], []
for p in props:
    pid = p['id']
    if pid in CLAIMED:
        tech, text, note, ref = CLAIMED[pid]
        checks.append({
            'property_id': pid, 'quick_cmd': './check %s quick' % pid, 'thorough_cmd': './check %s thorough' % pid,
            'evidence_file': 'evidence/%s.json' % pid, 'replay_cmd_template': './check %s --replay {path}' % pid,
            'engine': 'lean-model+correspondence',
            'level_claimed': {'category': 'proof', 'text': text, 'design_ref': 'DESIGN.md section ' + ref},
            'level_note': note, 'technique': tech})
    else:
        na.append({'property_id': pid, 'reason': NOT_YET})
m = {
 'version': 1,
 'setup_cmd': 'cd lean && lake build',
 'hooks': {'guard': 'NBDIME_VERIF', 'enable': 'no source hooks: all instrumentation is monkey-patching from the harness (NBDIME_VERIF=1 is set by ./check but nothing in /repo reads it)',
           'baseline_off_cmd': 'cd /repo && /venv/bin/python -m pytest -ra -q -p no:cacheprovider --timeout=900 --continue-on-collection-errors',
           'source_commits': json.load(open(os.path.join(HERE, 'tools', 'source_commits.json'))), 'add_only': True},
 'engines': [{'name': 'lean-model+correspondence', 'path': 'lean/', 'serves_properties': sorted(CLAIMED),
              'kind_free_text': 'Lean 4 model (NbdimeModel, import-free) + theorems (NbdimeProofs) + native line-protocol driver; Python harness under harness/ runs the real nbdime code and the model on the same inputs'}],
 'checks': checks, 'not_applicable': na,
 'notes': 'Every check: lake build (no-op when unchanged), forbidden-token grep, #print axioms audit of the property theorems, corpus, correspondence, property search on the implementation, known-finding classification, evidence.',
}
json.dump(m, open(os.path.join(HERE, 'MANIFEST.json'), 'w'), indent=1)
print('claimed', len(checks), 'not_applicable', len(na))
