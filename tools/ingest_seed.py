#!/usr/bin/env python3
"""tools/ingest_seed.py <Cxx> <round> <outdir>: copy a sub-agent's seeded change into seeded/<Cxx>-r<round>/"""
import json, os, shutil, sys
os.chdir(os.path.join(os.path.dirname(os.path.abspath(__file__)), '..'))
pid, rnd, out = sys.argv[1], sys.argv[2], sys.argv[3]
dst = f'seeded/{pid}-r{rnd}'
os.makedirs(dst, exist_ok=True)
for f in ('patch.diff', 'demo.py', 'meta.json'):
    shutil.copy(os.path.join(out, f), os.path.join(dst, f))
m = json.load(open(os.path.join(dst, 'meta.json')))
m['property'] = pid
m['origin'] = f'independent sub-agent, given only the property text and a scratch worktree (round {rnd})'
json.dump(m, open(os.path.join(dst, 'meta.json'), 'w'), indent=1)
print('ingested', dst)
