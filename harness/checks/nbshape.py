"""Correspondence of the Lean cell-shape predicate (NbdimeModel/NbShape.lean) with jsonschema on the
installed nbformat schema files: generated valid cells and a family of mutations, per minor."""
import copy, json
import vlib, gen_nb
from vlib import enc

MUTATIONS = ['none', 'none', 'drop-metadata', 'drop-source', 'drop-outputs', 'drop-execution_count', 'drop-id', 'add-id', 'dict-id', 'bad-id',
             'long-id', 'extra-key', 'metadata-list', 'source-int', 'count-str', 'count-neg', 'outputs-dict', 'attachments-list', 'bad-cell-type',
             'output-drop', 'output-type', 'output-extra', 'source-lines']


def mutate(rng, c, m):
    c = copy.deepcopy(c)
    if m.startswith('drop-'):
        c.pop(m[5:], None)
    elif m == 'add-id':
        c['id'] = 'abc-DEF_1'
    elif m == 'dict-id':
        c['id'] = {'local_id': 'a', 'remote_id': 'b'}
    elif m == 'bad-id':
        c['id'] = rng.choice(['', 'has space', 'ünï', 'a.b'])
    elif m == 'long-id':
        c['id'] = 'a' * rng.choice([64, 65])
    elif m == 'extra-key':
        c['foo'] = 1
    elif m == 'metadata-list':
        c['metadata'] = []
    elif m == 'source-int':
        c['source'] = 3
    elif m == 'source-lines':
        c['source'] = c['source'].splitlines(True) if isinstance(c['source'], str) else c['source']
    elif m == 'count-str' and c['cell_type'] == 'code':
        c['execution_count'] = '1'
    elif m == 'count-neg' and c['cell_type'] == 'code':
        c['execution_count'] = -1
    elif m == 'outputs-dict' and c['cell_type'] == 'code':
        c['outputs'] = {}
    elif m == 'attachments-list' and c['cell_type'] != 'code':
        c['attachments'] = []
    elif m == 'bad-cell-type':
        c['cell_type'] = rng.choice(['heading', 'Code', ''])
    elif m.startswith('output-') and c['cell_type'] == 'code' and c.get('outputs'):
        o = rng.choice(c['outputs'])
        if m == 'output-drop':
            o.pop(rng.choice([k for k in o if k != 'output_type']), None)
        elif m == 'output-type':
            o['output_type'] = 'pyout'
        else:
            o['extra'] = 1
    return c


def correspondence(ctx, n):
    rng = ctx.rng
    cases, reqs = [], []
    for _ in range(n):
        minor = rng.choice([0, 2, 4, 5, 5])
        c = mutate(rng, gen_nb.gen_cell(rng, minor, set()), rng.choice(MUTATIONS))
        nb = {'cells': [c], 'metadata': {}, 'nbformat': 4, 'nbformat_minor': minor}
        cases.append((minor, c, not gen_nb.schema_errors(nb)))
        reqs.append({'cmd': 'validcell', 'minor': minor, 'cell': enc(c)})
    bad = []
    for (minor, c, js), rep in zip(cases, vlib.Driver().run(reqs)):
        ctx.count('nbshape:' + ('valid' if js else 'invalid'))
        ctx.cov['traces_validated_against_impl'] += 1
        if rep.get('ok') != js:
            bad.append({'minor': minor, 'cell': c, 'jsonschema_valid': js, 'lean_valid': rep.get('ok')})
    ctx.cov['nbshape_disagreements'] = len(bad)
    if bad:
        ctx.violation('correspondence NbShape.validCell <-> jsonschema on the installed nbformat schema broken (%d); first: %s' % (len(bad), json.dumps(bad[0])[:400]),
                      {'kind': 'correspondence', 'stream': 'C04 nbshape', 'first': bad[0]}, found=False, classify=False)
