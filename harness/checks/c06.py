"""C06 changes to different cells merge cleanly into exactly both sets of changes.
Lean: Properties/C06.lean (patching a list at two separated positions commutes with applying the two
patches one after the other; one-sided decisions apply exactly their diff). Search: ownership
partitions with the expected result known by construction, evaluated on the real merger; oracle
hypothesis K6 (an edited cell stays aligned with its original) is checked on every case and cases
violating it are counted, not failed."""
import copy, json
import vlib, gen_nb
from vlib import enc, dec, canon, plain
from checks import mergelib

THEOREMS = ['Nbdime.C06_disjoint_list_patches', 'Nbdime.C06_onesided_applies_local']


@vlib.classifier('numeric-alias-owned')
def _cls_alias_owned(data, finding):
    """the merged notebook differs from the expected one only by numbers that Python's == identifies (False/0, 1/1.0)"""
    from checks.c02 import norm_alias
    if data.get('kind') not in ('owned', 'rootkey') or 'got' not in data:
        return False
    got, want = dec(data['got']), dec(data['expected'])
    return canon(got) != canon(want) and canon(norm_alias(got)) == canon(norm_alias(want))


def owned_case(rng, minor=None):
    minor = rng.choice([4, 5, 5]) if minor is None else minor
    used = set()
    base = gen_nb.gen_notebook(rng, minor, ncells=0)
    n = rng.choice([2, 3, 4, 5, 6, 6, 4, 17, 24, 36])     # also long notebooks where few cells are touched
    base['cells'] = [gen_nb.long_cell(rng, minor, used) for _ in range(n)]
    owner = [rng.choice(['local', 'remote', 'none'] if n < 10 else ['local', 'remote'] + ['none'] * 12) for _ in range(n)]
    if 'local' not in owner:
        owner[0] = 'local'
    if 'remote' not in owner:
        owner[-1] = 'remote'
    acts = []
    # per-cell result for each side: list of cells replacing position i
    res = {'local': [], 'remote': [], 'expected': []}
    touched = {'local': set(), 'remote': set()}
    for i, c in enumerate(base['cells']):
        act = 'leave'
        newc = copy.deepcopy(c)
        if owner[i] != 'none':
            act = rng.choice(['source', 'outputs', 'metadata', 'rerun', 'delete', 'leave', 'source'])
            if act == 'delete':
                newc = None
            elif act != 'leave':
                if act in ('outputs', 'rerun') and c['cell_type'] != 'code':
                    act = 'source'
                if act == 'source':
                    lines = newc['source'].splitlines(True)
                    k = rng.randrange(len(lines)) if lines else 0
                    if lines:
                        body = lines[k].rstrip('\r\n')
                        lines[k] = body + ' # edited by ' + owner[i] + lines[k][len(body):]
                        newc['source'] = ''.join(lines)
                    else:
                        newc['source'] = 'new line by ' + owner[i]
                else:
                    gen_nb.edit_cell(rng, newc, act)
            if act != 'leave' and canon(newc) != canon(c):
                touched[owner[i]].add(i)
        acts.append((owner[i], act))
        for side in ('local', 'remote'):
            res[side].append([copy.deepcopy(newc)] if (owner[i] == side and newc is not None) else [] if (owner[i] == side) else [copy.deepcopy(c)])
        res['expected'].append([copy.deepcopy(newc)] if newc is not None else [])
    # insertions only in gaps not adjacent to a cell the other side touched
    ins = []
    for gap in range(n + 1):
        if rng.random() < 0.25:
            side = rng.choice(['local', 'remote'])
            other = 'remote' if side == 'local' else 'local'
            adj = {gap - 1, gap}
            if adj & touched[other] or any(g in (gap,) and s != side for g, s, _ in ins):
                continue
            ins.append((gap, side, gen_nb.long_cell(rng, minor, used)))
    def build(side):
        out = []
        for gap in range(n + 1):
            for g, s, c in ins:
                if g == gap and (side == 'expected' or s == side):
                    out.append(copy.deepcopy(c))
            if gap < n:
                out.extend(res[side][gap])
        nb = copy.deepcopy(base)
        nb['cells'] = out
        return nb
    l, r, e = build('local'), build('remote'), build('expected')
    for nb in (base, l, r, e):
        assert gen_nb.is_valid(nb)
    return base, l, r, e, {'owners': owner, 'actions': acts, 'inserts': [(g, s) for g, s, _ in ins]}


def k6_holds(b, x):
    """every base cell that survives in x (same position order) is still reported as a patch, not as remove+add"""
    import nbdime
    d = plain(nbdime.diff_notebooks(mergelib.nbnode(b), mergelib.nbnode(x)))
    removed = sum(e['length'] for top in d if top['key'] == 'cells' for e in top['diff'] if e['op'] == 'removerange')
    return removed == len(b['cells']) - sum(1 for c in b['cells'] if any(canon(c.get('id', c['source'])) == canon(y.get('id', y['source'])) or True for y in [c])) + (len(b['cells']) - len([1 for _ in b['cells']])) if False else removed


def check_case(ctx, b, l, r, e, info, a, md):
    import nbdime
    # K6: the number of cells each diff removes equals the number of cells that side deleted
    nl = sum(1 for (o, act) in info['actions'] if o == 'local' and act == 'delete')
    nr = sum(1 for (o, act) in info['actions'] if o == 'remote' and act == 'delete')
    if k6_holds(b, l) != nl or k6_holds(b, r) != nr:
        ctx.count('K6-violated (edited cell not aligned with its original): skipped')
        return
    with mergelib.renderer(md):
        res = mergelib.run_merge(b, l, r, a)
    ctx.count('cells:%d' % len(b['cells']))
    for o, act in info['actions']:
        ctx.count('action:' + act)
    ctx.case(canon(b) + canon(l) + canon(r) + json.dumps(a.key()), True)
    ctx.sample(info, limit=3)
    data = {'kind': 'owned', 'b': enc(b), 'l': enc(l), 'r': enc(r), 'expected': enc(e), 'info': info, 'strategy': a.key(), 'helper': md}
    if res[0] != 'ok':
        ctx.violation('merge of changes to different cells raised %s' % res[2], dict(data, kind='raises'))
        return
    if mergelib.REAPPLIED[0] is not None:
        ctx.violation('applying the decisions returned with the merge to base again does not give base with both sets of changes applied (%s)' % (info['actions'],),
                      dict(data, kind='reapplied', got=enc(mergelib.REAPPLIED[0]) if not isinstance(mergelib.REAPPLIED[0], str) else mergelib.REAPPLIED[0]))
    if mergelib.has_conflict(res[2]):
        ctx.violation('changes to different cells are reported as a conflict (%s) under %s' % (info['actions'], a.key()), data)
    elif canon(res[1]) != canon(e):
        ctx.violation('merge of changes to different cells is not base with both sets of changes applied (%s)' % (info['actions'],), dict(data, got=enc(res[1])))


def generic_cases(ctx, rng, n):
    from checks.c05 import generic_merge
    for _ in range(n):
        # dicts: different keys; lists: separated positions
        keys = ['k%d' % i for i in range(rng.choice([2, 3, 5]))]
        b = {k: rng.choice(['v', 1, [1, 2], {'n': 1}, 'multi\nline\n']) for k in keys}
        l, r, e = copy.deepcopy(b), copy.deepcopy(b), copy.deepcopy(b)
        for k in keys:
            side = rng.choice(['l', 'r', 'n'])
            if side == 'n':
                continue
            act = rng.choice(['replace', 'delete'])
            tgt = l if side == 'l' else r
            if act == 'delete':
                del tgt[k]
                del e[k]
            else:
                tgt[k] = e[k] = 'changed-by-' + side
        (l if rng.random() < 0.5 else r)['newkey'] = 'added'
        e['newkey'] = 'added'
        res = generic_merge(b, l, r)
        ctx.count('generic:dict')
        ctx.case('g' + canon(b) + canon(l) + canon(r), True)
        data = {'kind': 'generic', 'b': b, 'l': l, 'r': r, 'expected': e}
        if res[0] != 'ok' or mergelib.has_conflict(res[2]) or canon(res[1]) != canon(e):
            ctx.violation('generic merge of changes under different keys: %s' % (res[2] if res[0] != 'ok' else 'conflict' if mergelib.has_conflict(res[2]) else 'got %r expected %r' % (res[1], e)), data)
        n_items = rng.choice([4, 6, 8])
        bl = ['item%d' % i for i in range(n_items)]
        ll, rl, el = list(bl), list(bl), list(bl)
        i, j = 0, n_items - 1     # separated positions
        ll[i] = el[i] = 'L'
        if rng.random() < 0.5:
            rl[j] = el[j] = 'R'
        else:
            del rl[j]
            del el[j]
        res = generic_merge(bl, ll, rl)
        ctx.count('generic:list')
        ctx.case('g' + canon(bl) + canon(ll) + canon(rl), True)
        if res[0] != 'ok' or mergelib.has_conflict(res[2]) or canon(res[1]) != canon(el):
            ctx.violation('generic merge of changes at separate list positions failed', {'kind': 'generic', 'b': bl, 'l': ll, 'r': rl, 'expected': el})


def _run_property(ctx):
    ctx.cov['rule'] = ('base notebooks with 2-36 cells (long notebooks with few touched cells included), every cell owned by local, remote or nobody, per-cell action on the owning side (edit source / outputs / '
                       'metadata / re-run, delete, leave), insertions only in gaps not adjacent to a cell the other side touched; expected result built without '
                       'any diff; plus generic dicts (different keys) and lists (separate positions); non-trivial = every case; distinct by (partition, actions, strategy)')
    vlib.audit(ctx, 'NbdimeProofs', THEOREMS)
    rng = ctx.rng
    combos = mergelib.all_combos()
    for t in range(120 if ctx.tier == 'quick' else 3000):
        b, l, r, e, info = owned_case(rng)
        for a in [mergelib.Args('inline')] + ([rng.choice(combos)] if t % 3 == 0 else []):
            check_case(ctx, b, l, r, e, info, a, mergelib.RENDERERS[t % 3])
    generic_cases(ctx, rng, 60 if ctx.tier == 'quick' else 1500)


MERGE_MODEL_THEOREMS = ['Nbdime.C06_model_no_conflict']
THEOREMS.extend(t for t in MERGE_MODEL_THEOREMS if t not in THEOREMS)


def theorem_domain(ctx):
    """ownership cases through the Lean merger: correspondence, and the hypothesis `Merge.disjoint` of
    C06_model_no_conflict evaluated by the driver (how many generated cases lie inside the theorem)"""
    import random
    from checks import mergemodel
    rng = random.Random('C06/domain/%s/%d' % (ctx.tier, ctx.seed))
    combos = [mergelib.Args('inline'), mergelib.Args('mergetool'), mergelib.Args('use-local'), mergelib.Args('inline', 'use-base', 'remove')]
    cases, reqs = [], []
    for t in range(40 if ctx.tier == 'quick' else 600):
        b, l, r, e, info = owned_case(rng)
        a = combos[t % len(combos)]
        try:
            nb, ld, rd, S = mergemodel.notebook_case(b, l, r, a)
        except Exception:
            continue
        with mergelib.renderer('builtin'):
            res, req = mergemodel.impl_decide(nb, ld, rd, S)
        cases.append((res, {'b': enc(b), 'l': enc(l), 'r': enc(r), 'strategy': a.key(), 'helper': 'builtin', 'info': info}))
        reqs += [req, dict(req, want='disjoint')]
    replies = vlib.Driver().run(reqs) if reqs else []
    mism = []
    for i, (res, data) in enumerate(cases):
        rep, dom = replies[2 * i], replies[2 * i + 1]
        ctx.cov['traces_validated_against_impl'] += 1
        inside = dom.get('ok') is True
        ctx.count('theorem-domain:disjoint' if inside else 'theorem-domain:outside (both sides patch one string / similar)')
        if not mergemodel.same(res, rep):
            mism.append({'stream': 'merge-model', 'tag': 'owned', 'difference': mergemodel.first_difference(res, rep), 'case': data})
        elif inside and 'ok' in res and any(d['conflict'] for d in res['ok']):
            # the theorem says: impossible for the model; the implementation agrees with the model here, so this cannot happen either
            mism.append({'stream': 'merge-model', 'tag': 'owned-theorem', 'difference': {'conflicts': sum(1 for d in res['ok'] if d['conflict'])}, 'case': data})
    ctx.cov['correspondence_mismatches'] = ctx.cov.get('correspondence_mismatches', 0) + len(mism)
    return mism


KEYWISE_THEOREMS = ['Nbdime.C06_model_keywise', 'Nbdime.C06_model_different_keys', 'Nbdime.apply_keywise_obj', 'Nbdime.C09_model_keywise_all',
                    'Nbdime.C06_model_cells', 'Nbdime.C06_notebook_cells', 'Nbdime.apply_cells_only', 'Nbdime.C09_model_cells_choose',
                    'Nbdime.C06_model_mixed', 'Nbdime.C06_notebook_mixed', 'Nbdime.apply_mixed_obj', 'Nbdime.mixed_two_stage', 'Nbdime.C06_model_mixed_all', 'Nbdime.C05_model_mixed_symmetric']
THEOREMS.extend(t for t in KEYWISE_THEOREMS if t not in THEOREMS)


def rootkey_case(rng):
    """the two sides work on different top-level parts of the notebook (cells / metadata / format minor), or make the
    same change to one part: expected result by construction, no diff involved"""
    minor = rng.choice([4, 5, 5])
    base = gen_nb.gen_notebook(rng, minor)
    parts = ['cells', 'metadata']
    rng.shuffle(parts)
    kind = rng.choice(['different', 'different', 'different', 'same', 'mixed'])
    x = gen_nb.edit_notebook(rng, base, nedits=rng.choice([1, 2, 4]))[0]
    y = gen_nb.edit_notebook(rng, base, nedits=rng.choice([1, 2, 4]))[0]
    l, r, e = copy.deepcopy(base), copy.deepcopy(base), copy.deepcopy(base)
    if kind == 'different':
        l[parts[0]] = e[parts[0]] = copy.deepcopy(x[parts[0]])
        r[parts[1]] = e[parts[1]] = copy.deepcopy(y[parts[1]])
    elif kind == 'same':
        for k in parts:
            l[k] = copy.deepcopy(x[k]); r[k] = copy.deepcopy(x[k]); e[k] = copy.deepcopy(x[k])
    else:
        # one part changed identically on both sides, the other by one side only
        l[parts[0]] = copy.deepcopy(x[parts[0]]); r[parts[0]] = copy.deepcopy(x[parts[0]]); e[parts[0]] = copy.deepcopy(x[parts[0]])
        side = rng.choice([l, r])
        side[parts[1]] = copy.deepcopy(y[parts[1]]); e[parts[1]] = copy.deepcopy(y[parts[1]])
    for nb in (base, l, r, e):
        if not gen_nb.is_valid(nb):
            return None
    return base, l, r, e, {'kind': kind, 'parts': parts}


def keywise_domain(ctx):
    """root-key cases through the implementation and through the Lean merger + applier: the decidable hypothesis
    `Merge.keywise` of C06_model_keywise is evaluated by the driver; inside the domain the theorem says
    apply(decide(base, ld, rd)) = patch(base, ld U rd) for the model; the implementation has to give the expected
    notebook (built without any diff), without conflicts, and has to agree with the model."""
    import random
    from checks import mergemodel
    rng = random.Random('C06/keywise/%s/%d' % (ctx.tier, ctx.seed))
    combos = [mergelib.Args('inline'), mergelib.Args('mergetool'), mergelib.Args('use-remote'), mergelib.Args('union', 'inline', 'clear-all'),
              mergelib.Args('inline', 'use-base', 'remove')]
    cases, reqs = [], []
    for t in range(40 if ctx.tier == 'quick' else 500):
        c = rootkey_case(rng)
        if c is None:
            continue
        b, l, r, e, info = c
        a = combos[t % len(combos)]
        data = {'kind': 'rootkey', 'b': enc(b), 'l': enc(l), 'r': enc(r), 'expected': enc(e), 'info': info, 'strategy': a.key(), 'helper': 'builtin'}
        with mergelib.renderer('builtin'):
            res = mergelib.run_merge(b, l, r, a)
        ctx.case('k' + canon(b) + canon(l) + canon(r) + json.dumps(a.key()), True)
        ctx.count('rootkey:' + info['kind'])
        if res[0] != 'ok':
            ctx.violation('merge of changes to different top-level parts raised %s' % res[2], dict(data, kind='raises'))
            continue
        if mergelib.has_conflict(res[2]):
            ctx.violation('changes to different top-level parts (%s) are reported as a conflict under %s' % (info, a.key()), data)
        elif canon(res[1]) != canon(e):
            ctx.violation('merge of changes to different top-level parts is not base with both sets of changes applied (%s)' % (info,), dict(data, got=enc(res[1])))
        try:
            nb, ld, rd, S = mergemodel.notebook_case(b, l, r, a)
        except Exception:
            continue
        with mergelib.renderer('builtin'):
            dres, req = mergemodel.impl_decide(nb, ld, rd, S)
        cases.append((dres, data, e))
        reqs += [req, dict(req, want='keywise')]
    replies = vlib.Driver().run(reqs) if reqs else []
    mism = []
    for i, (dres, data, e) in enumerate(cases):
        rep, kw = replies[2 * i], replies[2 * i + 1]
        ctx.cov['traces_validated_against_impl'] += 1
        inside = kw.get('ok') is True
        ctx.count('theorem-domain:keywise' if inside else 'theorem-domain:keywise-outside')
        if not mergemodel.same(dres, rep):
            mism.append({'stream': 'merge-model', 'tag': 'rootkey', 'difference': mergemodel.first_difference(dres, rep), 'case': data})
            continue
        if inside:
            merged, patched = kw.get('merged', {}), kw.get('patched', {})
            if 'ok' in merged and 'ok' in patched:
                ctx.cov.setdefault('theorem_hypothesis_checks', 0)
                ctx.cov['theorem_hypothesis_checks'] += 1
                if canon(dec(merged['ok'])) != canon(dec(patched['ok'])):
                    # impossible by C06_model_keywise: a driver / codec fault
                    raise vlib.Infra('driver contradicts C06_model_keywise')
                for a_, b_ in (('as_local', 'local'), ('as_remote', 'remote')):
                    # C09_model_keywise_choose_local / _remote: choosing a side for every decision = that side's patch
                    if 'ok' in kw.get(b_, {}) and ('ok' not in kw.get(a_, {}) or canon(dec(kw[a_]['ok'])) != canon(dec(kw[b_]['ok']))):
                        raise vlib.Infra('driver contradicts C09_model_keywise_choose_%s' % b_)
                for side_, nb_ in (('as_local', data['l']), ('as_remote', data['r'])):
                    if 'ok' in kw.get(side_, {}) and canon(dec(kw[side_]['ok'])) != canon(dec(nb_)):
                        mism.append({'stream': 'merge-model', 'tag': 'rootkey-' + side_, 'difference': {'model_side_selection_differs_from_the_side': side_}, 'case': data})
                if canon(mergemodel.mask_markers(dec(merged['ok']))) != canon(mergemodel.mask_markers(plain(e))):
                    mism.append({'stream': 'merge-model', 'tag': 'rootkey-applied', 'difference': {'model_merged_differs_from_expected': True}, 'case': data})
    ctx.cov['correspondence_mismatches'] = ctx.cov.get('correspondence_mismatches', 0) + len(mism)
    return mism


def cells_edit_case(rng):
    """every cell is edited by one side or by nobody; no cell is inserted, deleted or moved and nothing outside the cells
    changes: the shape of C06_model_cells (expected result by construction)"""
    minor = rng.choice([4, 5, 5])
    used = set()
    base = gen_nb.gen_notebook(rng, minor, ncells=0)
    n = rng.choice([2, 3, 4, 5, 7, 7, 16, 20, 33])     # also long notebooks with few edited cells
    base['cells'] = [gen_nb.long_cell(rng, minor, used) for _ in range(n)]
    l, r, e = copy.deepcopy(base), copy.deepcopy(base), copy.deepcopy(base)
    owners = [rng.choice(['local', 'remote', 'none'] if n < 10 else ['local', 'remote'] + ['none'] * 10) for _ in range(n)]
    owners[rng.randrange(n)] = 'local'
    acts = []
    for i, c in enumerate(base['cells']):
        if owners[i] == 'none':
            acts.append((owners[i], 'leave'))
            continue
        act = rng.choice(['source', 'source', 'metadata', 'outputs', 'rerun']) if c['cell_type'] == 'code' else rng.choice(['source', 'metadata'])
        newc = copy.deepcopy(c)
        if act == 'source':
            lines = newc['source'].splitlines(True)
            q = rng.randrange(len(lines)) if lines else 0
            if lines:
                body = lines[q].rstrip('\r\n')
                lines[q] = body + ' # by ' + owners[i] + lines[q][len(body):]
                newc['source'] = ''.join(lines)
            else:
                newc['source'] = 'line by ' + owners[i]
        else:
            gen_nb.edit_cell(rng, newc, act)
        (l if owners[i] == 'local' else r)['cells'][i] = copy.deepcopy(newc)
        e['cells'][i] = copy.deepcopy(newc)
        acts.append((owners[i], act))
    for nb in (base, l, r, e):
        if not gen_nb.is_valid(nb):
            return None
    return base, l, r, e, {'owners': owners, 'actions': acts, 'kind': 'cells-edit'}


def cellwise_domain(ctx):
    """cell-edit cases through the implementation and through the Lean merger + applier; the decidable hypothesis
    `Merge.cellwise` of C06_model_cells is evaluated by the driver. Inside the domain the theorem says
    apply(decide(base, ld, rd)) = patch(patch(base, ld), rd) for the model; the implementation has to return the notebook
    built by construction, without conflicts, and has to agree with the model."""
    import random
    from checks import mergemodel
    rng = random.Random('C06/cellwise/%s/%d' % (ctx.tier, ctx.seed))
    combos = [mergelib.Args('inline'), mergelib.Args('mergetool'), mergelib.Args('use-local'), mergelib.Args('union', 'inline', 'remove'),
              mergelib.Args('inline', 'use-base', 'clear-all')]
    cases, reqs = [], []
    for t in range(40 if ctx.tier == 'quick' else 600):
        c = cells_edit_case(rng)
        if c is None:
            continue
        b, l, r, e, info = c
        a = combos[t % len(combos)]
        data = {'kind': 'owned', 'b': enc(b), 'l': enc(l), 'r': enc(r), 'expected': enc(e), 'info': info, 'strategy': a.key(), 'helper': 'builtin'}
        with mergelib.renderer('builtin'):
            res = mergelib.run_merge(b, l, r, a)
        ctx.case('c' + canon(b) + canon(l) + canon(r) + json.dumps(a.key()), True)
        ctx.count('cells-edit case')
        if res[0] != 'ok':
            ctx.violation('merge of edits to different cells raised %s' % res[2], dict(data, kind='raises'))
            continue
        if mergelib.has_conflict(res[2]):
            ctx.violation('edits to different cells are reported as a conflict (%s) under %s' % (info['actions'], a.key()), data)
        elif canon(res[1]) != canon(e):
            ctx.violation('merge of edits to different cells is not base with both sets of changes applied (%s)' % (info['actions'],), dict(data, got=enc(res[1])))
        try:
            nb, ld, rd, S = mergemodel.notebook_case(b, l, r, a)
        except Exception:
            continue
        with mergelib.renderer('builtin'):
            dres, req = mergemodel.impl_decide(nb, ld, rd, S)
        cases.append((dres, data, e))
        reqs += [req, dict(req, want='cellwise')]
    replies = vlib.Driver().run(reqs) if reqs else []
    mism = []
    for i, (dres, data, e) in enumerate(cases):
        rep, cw = replies[2 * i], replies[2 * i + 1]
        ctx.cov['traces_validated_against_impl'] += 1
        inside = cw.get('ok') is True
        ctx.count('theorem-domain:cellwise' if inside else 'theorem-domain:cellwise-outside (an edited cell was not aligned / numeric alias)')
        if not mergemodel.same(dres, rep):
            mism.append({'stream': 'merge-model', 'tag': 'cells-edit', 'difference': mergemodel.first_difference(dres, rep), 'case': data})
            continue
        if inside:
            merged, both = cw.get('merged', {}), cw.get('both', {})
            if 'ok' in merged and 'ok' in both:
                ctx.cov['theorem_hypothesis_checks'] = ctx.cov.get('theorem_hypothesis_checks', 0) + 1
                if canon(dec(merged['ok'])) != canon(dec(both['ok'])):
                    raise vlib.Infra('driver contradicts C06_model_cells')
                for a_, b_ in (('as_local', 'local'), ('as_remote', 'remote')):
                    # C09_model_cells_choose: choosing a side for every decision = that side's patch
                    if 'ok' in cw.get(b_, {}) and ('ok' not in cw.get(a_, {}) or canon(dec(cw[a_]['ok'])) != canon(dec(cw[b_]['ok']))):
                        raise vlib.Infra('driver contradicts C09_model_cells_choose (%s)' % b_)
                for side_, nb_ in (('as_local', data['l']), ('as_remote', data['r'])):
                    if 'ok' in cw.get(side_, {}) and canon(dec(cw[side_]['ok'])) != canon(dec(nb_)):
                        mism.append({'stream': 'merge-model', 'tag': 'cells-edit-' + side_, 'difference': {'model_side_selection_differs_from_the_side': side_}, 'case': data})
                if canon(dec(merged['ok'])) != canon(plain(e)):
                    mism.append({'stream': 'merge-model', 'tag': 'cells-edit-applied', 'difference': {'model_merged_differs_from_expected': True}, 'case': data})
    ctx.cov['correspondence_mismatches'] = ctx.cov.get('correspondence_mismatches', 0) + len(mism)
    return mism


def mixed_case(rng):
    """cells edited by one side each (both sides edit at least one) and, next to it, the notebook metadata changed by one
    side only or by both in the same way: the shape of C06_model_mixed (expected result by construction)"""
    c = None
    for _ in range(20):
        c = cells_edit_case(rng)
        if c is not None and 'remote' in c[4]['owners'] and len(c[0]['cells']) >= 2:
            break
        c = None
    if c is None:
        return None
    base, l, r, e, info = c
    mode = rng.choice(['meta-local', 'meta-remote', 'meta-same', 'meta-local-nested', 'meta-remote-remove'])
    def change(md, who):
        md = copy.deepcopy(md)
        if mode == 'meta-remote-remove' and md:
            del md[sorted(md)[0]]
        elif mode == 'meta-local-nested':
            md.setdefault('kernelspec', {'name': 'python3', 'display_name': 'Python 3'})
            md['kernelspec'] = dict(md['kernelspec'], display_name='Python 3 (%s)' % who)
        else:
            md['verif_' + mode] = {'by': who if mode != 'meta-same' else 'both', 'n': [1, 2]}
        return md
    if mode in ('meta-local', 'meta-local-nested'):
        l['metadata'] = change(base['metadata'], 'local')
        e['metadata'] = copy.deepcopy(l['metadata'])
    elif mode in ('meta-remote', 'meta-remote-remove'):
        r['metadata'] = change(base['metadata'], 'remote')
        e['metadata'] = copy.deepcopy(r['metadata'])
    else:
        l['metadata'] = change(base['metadata'], 'both')
        r['metadata'] = change(base['metadata'], 'both')
        e['metadata'] = copy.deepcopy(l['metadata'])
    for nb in (base, l, r, e):
        if not gen_nb.is_valid(nb):
            return None
    return base, l, r, e, dict(info, kind='mixed', meta=mode)


def mixed_domain(ctx):
    """cell edits next to one-sided / agreed changes of the notebook metadata, through the implementation and through the Lean
    merger + applier; the decidable hypothesis `Merge.mixedwise` of C06_model_mixed is evaluated by the driver. Inside the
    domain the theorem says apply(decide(base, ld, rd)) = patch(patch(base, ld), remaining remote entries) for the model; the
    implementation has to return the notebook built by construction, without conflicts, and has to agree with the model."""
    import random
    from checks import mergemodel
    rng = random.Random('C06/mixedwise/%s/%d' % (ctx.tier, ctx.seed))
    combos = [mergelib.Args('inline'), mergelib.Args('mergetool'), mergelib.Args('use-remote'), mergelib.Args('union', 'inline', 'remove'),
              mergelib.Args('inline', 'use-base', 'clear-all')]
    cases, reqs = [], []
    for t in range(40 if ctx.tier == 'quick' else 600):
        c = mixed_case(rng)
        if c is None:
            continue
        b, l, r, e, info = c
        a = combos[t % len(combos)]
        data = {'kind': 'owned', 'b': enc(b), 'l': enc(l), 'r': enc(r), 'expected': enc(e), 'info': info, 'strategy': a.key(), 'helper': 'builtin'}
        with mergelib.renderer('builtin'):
            res = mergelib.run_merge(b, l, r, a)
        ctx.case('x' + canon(b) + canon(l) + canon(r) + json.dumps(a.key()), True)
        ctx.count('mixed case:' + info['meta'])
        if res[0] != 'ok':
            ctx.violation('merge of edits to different cells and a one-sided metadata change raised %s' % res[2], dict(data, kind='raises'))
            continue
        if mergelib.has_conflict(res[2]):
            ctx.violation('edits to different cells next to a one-sided / agreed metadata change are reported as a conflict (%s, %s) under %s' % (info['actions'], info['meta'], a.key()), data)
        elif canon(res[1]) != canon(e):
            ctx.violation('merge of edits to different cells next to a one-sided / agreed metadata change is not base with both sets of changes applied (%s, %s)' % (info['actions'], info['meta']), dict(data, got=enc(res[1])))
        try:
            nb, ld, rd, S = mergemodel.notebook_case(b, l, r, a)
        except Exception:
            continue
        with mergelib.renderer('builtin'):
            dres, req = mergemodel.impl_decide(nb, ld, rd, S)
        cases.append((dres, data, e))
        reqs += [req, dict(req, want='mixedwise', key='cells'), dict(req, want='mixedwise', key='cells', local=req['remote'], remote=req['local'])]
    replies = vlib.Driver().run(reqs) if reqs else []
    mism = []
    for i, (dres, data, e) in enumerate(cases):
        rep, cw, sw = replies[3 * i], replies[3 * i + 1], replies[3 * i + 2]
        ctx.cov['traces_validated_against_impl'] += 1
        inside = cw.get('ok') is True
        if inside and sw.get('ok') is True and 'ok' in cw.get('merged', {}) and 'ok' in sw.get('merged', {}):
            # C05_model_mixed_symmetric: both role assignments inside the domain -> the same merged document
            ctx.count('theorem-domain:mixedwise, both role assignments')
            ctx.cov['theorem_hypothesis_checks'] = ctx.cov.get('theorem_hypothesis_checks', 0) + 1
            if canon(dec(cw['merged']['ok'])) != canon(dec(sw['merged']['ok'])):
                raise vlib.Infra('driver contradicts C05_model_mixed_symmetric')
        ctx.count('theorem-domain:mixedwise' if inside else 'theorem-domain:mixedwise-outside (an edited cell was not aligned / numeric alias)')
        if not mergemodel.same(dres, rep):
            mism.append({'stream': 'merge-model', 'tag': 'mixed', 'difference': mergemodel.first_difference(dres, rep), 'case': data})
            continue
        if inside:
            merged, both = cw.get('merged', {}), cw.get('both', {})
            if 'ok' in merged and 'ok' in both:
                ctx.cov['theorem_hypothesis_checks'] = ctx.cov.get('theorem_hypothesis_checks', 0) + 1
                if canon(dec(merged['ok'])) != canon(dec(both['ok'])):
                    raise vlib.Infra('driver contradicts C06_model_mixed')
                if canon(dec(merged['ok'])) != canon(plain(e)):
                    mism.append({'stream': 'merge-model', 'tag': 'mixed-applied', 'difference': {'model_merged_differs_from_expected': True}, 'case': data})
    ctx.cov['correspondence_mismatches'] = ctx.cov.get('correspondence_mismatches', 0) + len(mism)
    return mism


def run(ctx):
    from checks import mergemodel
    _run_property(ctx)
    mism = theorem_domain(ctx)
    mism += keywise_domain(ctx)
    mism += cellwise_domain(ctx)
    mism += mixed_domain(ctx)
    mergemodel.tie(ctx, (40, 40, 400, 500), MERGE_MODEL_THEOREMS)
    mergemodel.report(ctx, mism, MERGE_MODEL_THEOREMS)


def replay(path):
    _d = json.load(open(path))['data']
    if _d.get('kind') == 'correspondence' and _d.get('stream') == 'merge-model':
        from checks import mergemodel
        return mergemodel.replay_case(_d)
    return _replay_property(path)


def _replay_property(path):
    data = json.load(open(path))['data']
    ctx = vlib.Ctx('C06', 'quick', 0)
    if data.get('kind') == 'rootkey' or (data.get('kind') == 'raises' and 'parts' in data.get('info', {})):
        a = mergelib.Args(*data['strategy'])
        with mergelib.renderer('builtin'):
            res = mergelib.run_merge(dec(data['b']), dec(data['l']), dec(data['r']), a)
        if res[0] != 'ok' or mergelib.has_conflict(res[2]) or canon(res[1]) != canon(dec(data['expected'])):
            ctx.violation('merge of changes to different top-level parts: raised / conflict / not the expected notebook', data)
    elif data.get('kind') in ('owned', 'raises'):
        check_case(ctx, dec(data['b']), dec(data['l']), dec(data['r']), dec(data['expected']), data['info'], mergelib.Args(*data['strategy']), data.get('helper', 'git'))
    for what, p, found in ctx.violations:
        print('REPRODUCED:', what[:300])
    return 1 if ctx.violations else 0
