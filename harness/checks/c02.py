"""C02 generic JSON diff/patch round trip, exact including value types.
Theorems: NbdimeProofs.Properties.C02 (audited). Tie: correspondence of nbdime.diff / nbdime.patch
with the Lean model (diffGeneric / patch) on generated and exhaustively enumerated pairs."""
import copy, itertools, json
import vlib
from vlib import enc, dec, enc_diff, dec_diff, canon, canon_diff, plain, exc_class
import gen_json

THEOREMS = ['Nbdime.C02_empty_diff_only_if_equal', "Nbdime.C02_roundtrip_partial", "Nbdime.C02_roundtrip_intsOnly", "Nbdime.diffAt_generic_roundtrip", "Nbdime.stringsLinewise_roundtrip", "Nbdime.diffDicts_roundtrip",
            "Nbdime.diffLists_single_roundtrip", "Nbdime.multilevel_roundtrip", "Nbdime.snakesML_in", "Nbdime.patchString_lines",
            "Nbdime.diffStringsByChar_ok", "Nbdime.exOracle_ok", "Nbdime.C02_list_roundtrip", "Nbdime.C02_list_roundtrip_strict", "Nbdime.C02_list_roundtrip_pyEq_partial", "Nbdime.C02_pyEq_refuted",
            "Nbdime.C02_seq_roundtrip_partial", "Nbdime.diffFromLcs_eq_dfl", "Nbdime.lcsBack_matching", "Nbdime.patchList_map_toOp", "Nbdime.Abs.patch_dfl",
            "Nbdime.J.beq_eq", "Nbdime.J.pyEq_eq"]


def impl_diff(a, b):
    import nbdime
    with vlib.recording() as memo:
        try:
            d = nbdime.diff(copy.deepcopy(a), copy.deepcopy(b))
            return ('ok', plain(d)), memo
        except Exception as e:
            return ('err', exc_class(e), str(e)[:200]), memo


class Raised:
    def __init__(self, name):
        self.name = name


def impl_patch(a, d):
    """the diff object is applied twice: ('ok', first result, second result, diff serialises the same afterwards)"""
    import nbdime
    from nbdime.diff_utils import to_diffentry_dicts
    try:
        dd = to_diffentry_dicts(copy.deepcopy(d))
        before = json.dumps(plain(dd), sort_keys=True)
        r1 = plain(nbdime.patch(copy.deepcopy(a), dd))
        try:
            r2 = plain(nbdime.patch(copy.deepcopy(a), dd))
        except Exception as e:
            r2 = Raised(type(e).__name__)
        return ('ok', r1, r2, before == json.dumps(plain(dd), sort_keys=True))
    except Exception as e:
        return ('err', exc_class(e), str(e)[:200])


def norm_alias(v):
    """map every number to a canonical numeric form: used only by the F-eq classifier"""
    if isinstance(v, bool):
        return int(v)
    if isinstance(v, float) and v == int(v):
        return int(v)
    if isinstance(v, list):
        return [norm_alias(x) for x in v]
    if isinstance(v, dict):
        return {k: norm_alias(x) for k, x in v.items()}
    return v


@vlib.classifier('numeric-alias')
def _cls_alias(data, finding):
    """the observed result differs from the expected one only by ==-equal numbers of different
    JSON type (True/1/1.0), and the inputs do contain such an aliased pair"""
    if data.get('kind') not in ('roundtrip', 'empty-diff'):
        return False
    try:
        got, want = dec(data['got']), dec(data['b'])
    except Exception:
        return False
    return canon(got) != canon(want) and canon(norm_alias(got)) == canon(norm_alias(want))


def gen_cases(ctx):
    rng = ctx.rng
    n_rand = 1500 if ctx.tier == 'quick' else 20000
    cases = []
    # corpus first
    import os
    cp = os.path.join(vlib.VERIF, 'corpus', 'C02.json')
    if os.path.exists(cp):
        for c in json.load(open(cp)):
            cases.append(('corpus', dec(c['a']), dec(c['b'])))
    # exhaustive small alphabet (the property's own quantifier)
    alpha = [0, 1, True, 1.0, 'a', 'a\nb', None, [], {}] if ctx.tier == 'thorough' else [1, True, 'a', 'a\nb', None, [], {}]
    docs = gen_json.small_values(alpha)
    lists = [d for d in docs if isinstance(d, list)]
    dicts = [d for d in docs if isinstance(d, dict)]
    if ctx.tier == 'quick':
        lists = rng.sample(lists, min(len(lists), 28))
        dicts = rng.sample(dicts, min(len(dicts), 22))
    for group in (lists, dicts):
        for a, b in itertools.product(group, repeat=2):
            cases.append(('exhaustive', a, b))
    ctx.cov['exhaustive_small_pairs'] = len(cases)
    # exhaustive line strings over a small alphabet (repeated lines, duplicated next to the original), top level and as a member
    lines = ['a\n', 'b\n', '\n'] if ctx.tier == 'quick' else ['a\n', 'b\n', '\n', 'ab\n']
    maxlen = 3 if ctx.tier == 'quick' else 4
    lstrs = [''.join(t) for n in range(0, maxlen + 1) for t in itertools.product(lines, repeat=n)]
    lstrs += [x.rstrip('\n') for x in lstrs if x.endswith('a\n')]
    pairs = list(itertools.product(lstrs, repeat=2))
    if ctx.tier == 'quick':
        pairs = rng.sample(pairs, 700)
    for k, (a, b) in enumerate(pairs):
        cases.append(('line-strings', a, b) if k % 3 else ('line-strings', {'s': a, 'k': 1}, {'s': b, 'k': 1}))
    # strings over every separator
    for s1 in gen_json.SEPS:
        for s2 in gen_json.SEPS[:4] + [rng.choice(gen_json.SEPS)]:
            a = 'l1' + s1 + 'l2' + s2 + 'l3'
            cases.append(('seps', a, a.replace('l2', 'L2x')))
            cases.append(('seps', a, 'l1' + s1 + 'l3'))
            cases.append(('seps', a, 'n0' + s2 + a))
    # string shapes (base shape x edit shape), top level and as a member
    import gen_nb
    for rep in range(1 if ctx.tier == 'quick' else 10):
        for k, (label, a, b) in enumerate(gen_nb.string_shapes(rng)):
            cases.append(('string-shapes', a, b) if (k + rep) % 2 else ('string-shapes', {'s': a}, {'s': b}))
    for _ in range(n_rand):
        alias = rng.random() < 0.15
        a, b = gen_json.pair(rng, alias=alias)
        cases.append(('random-alias' if alias else 'random', a, b))
    return cases


def check_cases(ctx, cases, record_mismatch=True):
    drv = vlib.Driver()
    impl, reqs = [], []
    for stream, a, b in cases:
        r, memo = impl_diff(a, b)
        impl.append((r, memo))
        ctx.cov['oracle_contract_checks'] += len(memo.cmp) + len(memo.opcodes)
        for cv in memo.contract_violations:
            ctx.violation('oracle contract violated: ' + cv, {'kind': 'oracle', 'a': enc(a), 'b': enc(b)})
        reqs.append({'cmd': 'diff', 'a': enc(a), 'b': enc(b), 'memo': memo.to_json()})
        if r[0] == 'ok':
            reqs.append({'cmd': 'patch', 'doc': enc(a), 'diff': enc_diff(r[1])})
    replies = iter(drv.run(reqs))
    mismatches = []
    for (stream, a, b), (r, memo) in zip(cases, impl):
        m_diff = next(replies)
        ctx.count('stream:' + stream)
        ctx.count('theorem-domain:Compat' if vlib.py_compat(a, b) else 'theorem-domain:outside (F-eq shape)')
        ctx.count('kind:' + type(a).__name__)
        base = {'a': enc(a), 'b': enc(b), 'stream': stream}
        nontrivial = canon(a) != canon(b)
        ctx.case(canon(a) + '|' + canon(b), nontrivial)
        if r[0] == 'err':
            ctx.count('impl-error:' + r[1])
            ctx.violation('diff raised %s: %s' % (r[1], r[2]), dict(base, kind='diff-raises', err=r[1], msg=r[2]))
            if 'ok' in m_diff:
                mismatches.append(dict(base, kind='corr-diff', impl=list(r), model=m_diff))
            continue
        d = r[1]
        m_patch = next(replies)
        ctx.count('ops:%d' % min(len(d), 5))
        ctx.sample({'a': a, 'b': b, 'diff': d})
        # --- the property, evaluated on the implementation's diff -------------------------------
        if 'ok' not in m_patch:
            ctx.violation('independent (model) patcher rejects the produced diff: %s' % m_patch,
                          dict(base, kind='model-patch-rejects', diff=enc_diff(d), got=m_patch))
        elif canon(dec(m_patch['ok'])) != canon(b):
            ctx.violation('independent patcher: patch(a, diff(a,b)) != b', dict(base, kind='roundtrip', diff=enc_diff(d), got=m_patch['ok']))
        ip = impl_patch(a, d)
        if ip[0] != 'ok':
            ctx.violation('nbdime.patch raised on its own diff: %s' % (ip,), dict(base, kind='patch-raises', diff=enc_diff(d)))
        elif canon(ip[1]) != canon(b):
            ctx.violation('nbdime.patch(a, diff(a,b)) != b', dict(base, kind='roundtrip', diff=enc_diff(d), got=enc(ip[1])))
        elif 'ok' in m_patch and canon(dec(m_patch['ok'])) != canon(ip[1]):
            mismatches.append(dict(base, kind='corr-patch', impl=enc(ip[1]), model=m_patch))
        if ip[0] == 'ok' and canon(ip[1]) == canon(b) and (not ip[3] or isinstance(ip[2], Raised) or canon(ip[2]) != canon(b)):
            ctx.violation('the diff no longer describes a -> b after nbdime.patch applied it once (%s)' %
                          ('second application: %s' % ('raised ' + ip[2].name if isinstance(ip[2], Raised) else 'different document') if ip[3] else 'it serialises differently'),
                          dict(base, kind='reapply', diff=enc_diff(d)))
        if not d and canon(a) != canon(b):
            ctx.violation('empty diff for documents that serialise differently', dict(base, kind='empty-diff', got=enc(a)))
        # --- correspondence model <-> code -----------------------------------------------------------
        ctx.cov['traces_validated_against_impl'] += 1
        if 'ok' not in m_diff or json.dumps(m_diff['ok'], sort_keys=True) != json.dumps(enc_diff(d), sort_keys=True):
            mismatches.append(dict(base, kind='corr-diff', impl=enc_diff(d), model=m_diff))
    vlib.check_oracle_hypothesis(ctx, drv, [(memo, {'a': enc(a), 'b': enc(b)}) for (stream, a, b), (r, memo) in zip(cases, impl)])
    return mismatches


def run(ctx):
    ctx.cov['rule'] = ('pairs (a,b) of same-kind JSON documents: corpus, exhaustive small alphabet, every line separator, '
                       'random structured (edit scripts / unrelated), 15% with bool/int/float look-alikes; '
                       'non-trivial = a and b serialise differently; distinct by typed canonical JSON of the pair')
    if THEOREMS:
        vlib.audit(ctx, 'NbdimeProofs', THEOREMS)
    cases = gen_cases(ctx)
    mismatches = check_cases(ctx, cases)
    ctx.cov['correspondence_mismatches'] = len(mismatches)
    if mismatches and not ctx.violations:
        # broken tie, and the search above (same cases, property oracle on the implementation)
        # found no failing input: the property is no longer shown.
        ctx.violation('correspondence NbdimeModel.diffGeneric/patch <-> nbdime.diff/patch broken (%d cases); first: %s'
                      % (len(mismatches), json.dumps(mismatches[0])[:400]),
                      {'kind': 'correspondence', 'stream': 'C02 diff/patch', 'first': mismatches[0],
                       'count': len(mismatches)}, found=False, classify=False)
    if ctx.tier == 'thorough' and THEOREMS:
        vlib.leanchecker(ctx, ['NbdimeProofs'])


def replay(path):
    data = json.load(open(path))['data']
    ctx = vlib.Ctx('C02', 'quick', 0)
    if 'a' in data:
        check_cases(ctx, [('replay', dec(data['a']), dec(data['b']))])
    for what, p, found in ctx.violations:
        print('REPRODUCED:', what[:300])
    for k in ctx.known:
        print('KNOWN-FINDING (reproduced):', k['tag'])
    return 1 if (ctx.violations or ctx.known) else 0
