"""C07 default merge never drops or invents source text; real conflicts are flagged.
Lean: NbdimeModel/Render.lean models the built-in text merge renderer (format_merge_render_lines) and
Properties/C07.lean proves that every line it emits is a line of local or remote or a marker and that
every line of local and remote is emitted. Search: line-set predicates on the real merger under the
default strategy with each of the three text merge helpers; the built-in renderer is also compared
with the model on the strings the merger hands it."""
import copy, json, re
import vlib, gen_nb
from vlib import enc, dec, canon, plain
from checks import mergelib

THEOREMS = ['Nbdime.C07_builtin_provenance', 'Nbdime.C07_builtin_survival', 'Nbdime.C07_model_cells_survival']
MARK = re.compile(r'^(<{7}|={7}|>{7}|\|{7})( .*)?$')
SPAN = re.compile(r'^<span style="color:red"><b>(<{7}|={7}|>{7}).*</b></span>$')


def is_marker(line):
    return bool(MARK.match(line) or SPAN.match(line) or line in ('<<<<<<< LOCAL CELL DELETED >>>>>>>', '<<<<<<< REMOTE CELL DELETED >>>>>>>'))


GLUED = re.compile(r'^(.*?\S)\s*(<{7}|={7}|>{7}|\|{7})( .*)?$')


@vlib.classifier('diff3-no-trailing-newline')
def _cls_glued(data, finding):
    """diff3 helper, and the only problem is a conflict marker glued to the end of a last line that
    has no trailing newline: un-gluing the markers makes the clause hold"""
    if data.get('helper') != 'diff3' or data.get('kind') not in ('dropped', 'invented', 'variant-missing'):
        return False
    glued = data.get('glued_ok')
    return bool(glued)


def check_triple(ctx, b, l, r, md, kinds, flag_case=None):
    a = mergelib.Args('inline')
    with mergelib.renderer(md):
        res = mergelib.run_merge(b, l, r, a)
    ctx.count('helper:' + md)
    ctx.case(canon(b) + canon(l) + canon(r) + md, True)
    data = {'b': enc(b), 'l': enc(l), 'r': enc(r), 'helper': md, 'scenario': kinds}
    if res[0] != 'ok':
        ctx.violation('default merge raised %s' % res[2], dict(data, kind='merge-raises', site=mergelib.LAST_ERROR_SITE[0]))
        return
    merged, decisions = res[1], res[2]
    lb, ll, lr, lm = (set(mergelib.nonblank(mergelib.source_lines(x))) for x in (b, l, r, merged))
    # the same clauses with markers un-glued from text they were appended to (used only by a classifier)
    lm2 = set()
    for x in lm:
        m = GLUED.match(x)
        if m and not is_marker(x):
            lm2.update([m.group(1).strip(), (m.group(2) + (m.group(3) or '')).strip()])
        else:
            lm2.add(x)
    glued_ok = (lm2 != lm and all(x in lm2 for side in (ll, lr) for x in side - lb)
                and all(x in lb or x in ll or x in lr or is_marker(x) for x in lm2))
    data['glued_ok'] = glued_ok
    for side, ls in (('local', ll), ('remote', lr)):
        lost = sorted(x for x in ls - lb if x not in lm)
        if lost:
            ctx.violation('source line(s) added by %s are missing from the merged notebook (%s): %r' % (side, md, lost[:3]), dict(data, kind='dropped', lost=lost, side=side))
    invented = sorted(x for x in lm if x not in lb and x not in ll and x not in lr and not is_marker(x))
    if invented:
        ctx.violation('merged source contains line(s) found in none of the inputs (%s): %r' % (md, invented[:3]), dict(data, kind='invented', invented=invented))
    if flag_case:
        lv, rv = flag_case
        if not mergelib.has_conflict(decisions):
            ctx.violation('both sides rewrote the same line differently but no conflict is reported (%s)' % md, dict(data, kind='not-flagged'))
        if lv.strip() not in lm or rv.strip() not in lm:
            ctx.violation('both sides rewrote the same line differently but the merged notebook does not present both variants (%s)' % md, dict(data, kind='variant-missing'))
    if mergelib.has_conflict(decisions):
        ctx.count('conflicted')
        if len(json.dumps(sorted(lm - lb))) < 300:
            ctx.sample({'scenario': kinds, 'helper': md, 'merged_lines_not_in_base': sorted(lm - lb)}, limit=3)


def same_line_case(rng):
    minor = 5
    used = set()
    base = gen_nb.gen_notebook(rng, minor, ncells=0)
    base['cells'] = [gen_nb.long_cell(rng, minor, used) for _ in range(rng.choice([1, 2, 3]))]
    l, r = copy.deepcopy(base), copy.deepcopy(base)
    i = rng.randrange(len(base['cells']))
    lines = base['cells'][i]['source'].splitlines(True)
    k = rng.randrange(len(lines))
    body = lines[k].rstrip('\r\n')
    end = lines[k][len(body):]
    lv, rv = body + ' LOCAL-variant', 'REMOTE-variant ' + body
    l['cells'][i]['source'] = ''.join(lines[:k] + [lv + end] + lines[k + 1:])
    r['cells'][i]['source'] = ''.join(lines[:k] + [rv + end] + lines[k + 1:])
    return base, l, r, (lv, rv)


def builtin_correspondence(ctx, n):
    """the built-in renderer vs its Lean model on generated (local, remote) strings"""
    from nbdime.prettyprint import builtin_merge_render
    rng = ctx.rng
    cases, reqs = [], []
    for _ in range(n):
        base = gen_nb.text(rng, gen_nb.CODE_LINES, 6)
        l = gen_nb.edit_text(rng, base, gen_nb.CODE_LINES)
        r = gen_nb.edit_text(rng, base, gen_nb.CODE_LINES) if rng.random() < 0.8 else l
        if rng.random() < 0.3:
            l, r = l.replace('\r\n', '\n').replace('\r', '\n'), r
        got, status = builtin_merge_render(base, l, r, None)
        cases.append((l, r, got, status))
        reqs.append({'cmd': 'builtinmerge', 'local': l, 'remote': r})
    bad = []
    for (l, r, got, status), rep in zip(cases, vlib.Driver().run(reqs)):
        ctx.count('builtin-renderer-case')
        ctx.cov['traces_validated_against_impl'] += 1
        if rep.get('ok') != [got, status]:
            bad.append({'local': l, 'remote': r, 'impl': [got, status], 'model': rep.get('ok')})
    ctx.cov['correspondence_mismatches'] = len(bad)
    return bad


def run(ctx):
    ctx.cov['rule'] = ('notebook triples (as C03) under the default strategy with each text merge helper (git merge-file, diff3, built-in) for the survival and '
                       'provenance clauses; id-aligned bases where both sides rewrite the same line differently for the flagging clause; non-trivial = every '
                       'case; distinct by (triple, helper)')
    vlib.audit(ctx, 'NbdimeProofs', THEOREMS)
    rng = ctx.rng
    bad = builtin_correspondence(ctx, 150 if ctx.tier == 'quick' else 3000)
    for t in range(330 if ctx.tier == 'quick' else 3000):
        b, l, r, kinds = gen_nb.any_triple(rng)
        for md in ([mergelib.RENDERERS[t % 3]] if ctx.tier == 'quick' else mergelib.RENDERERS):
            check_triple(ctx, b, l, r, md, kinds)
    for t in range(30 if ctx.tier == 'quick' else 400):
        b, l, r, fc = same_line_case(rng)
        for md in mergelib.RENDERERS:
            check_triple(ctx, b, l, r, md, ['same-line-flagging'], flag_case=fc)
    if bad and not ctx.violations:
        ctx.violation('correspondence Render.builtinMerge <-> builtin_merge_render broken (%d); first: %s' % (len(bad), json.dumps(bad[0])[:400]),
                      {'kind': 'correspondence', 'stream': 'C07 builtinmerge', 'first': bad[0]}, found=False, classify=False)


def replay(path):
    data = json.load(open(path))['data']
    ctx = vlib.Ctx('C07', 'quick', 0)
    if 'b' in data:
        check_triple(ctx, dec(data['b']), dec(data['l']), dec(data['r']), data.get('helper', 'git'), ['replay'])
    for what, p, found in ctx.violations:
        print('REPRODUCED:', what[:300])
    return 1 if ctx.violations else 0
