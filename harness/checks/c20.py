"""C20 web API agrees with the library and writes only where told at start-up.
Model: NbdimeModel/Web.lean (+ Properties/C20.lean). Tie: the real handlers (make_app) run under
tornado on 127.0.0.1 with stub jinja2/jupyter_server packages; generated request sequences against
servers started in each mode; status, body and the full file tree are recorded around every request
and compared with the model and with the library (diff_notebooks via the independent model patcher,
decide_notebook_merge)."""
import concurrent.futures, copy, json, os, subprocess, sys, tempfile
import vlib, gen_nb
from vlib import enc, dec, enc_diff, canon, plain
from checks import mergelib

THEOREMS = ['Nbdime.C20_confined', 'Nbdime.C20_refuse', 'Nbdime.C20_close', 'Nbdime.C20_error_clean',
            'Nbdime.C20_open_before_serialise_refuted']
WORKER = os.path.join(vlib.VERIF, 'harness', 'c20_worker.py')
NBFILES = ['a.ipynb', 'b.ipynb', 'c.ipynb']


def make_tree(rng, td):
    root = os.path.join(td, 'srv')
    os.makedirs(os.path.join(root, 'work', 'sub'))
    base = gen_nb.gen_notebook(rng, ncells=rng.choice([1, 2, 3]))
    nbs = {'a.ipynb': base, 'b.ipynb': gen_nb.edit_notebook(rng, base)[0], 'c.ipynb': gen_nb.edit_notebook(rng, base)[0]}
    for n, nb in nbs.items():
        json.dump(nb, open(os.path.join(root, 'work', n), 'w'))
    open(os.path.join(root, 'work', 'notes.txt'), 'w').write('not a notebook\n')
    open(os.path.join(root, 'work', 'empty.ipynb'), 'w').close()
    open(os.path.join(root, 'work', 'out.ipynb'), 'w').write('{"previous": "content"}\n')
    open(os.path.join(root, 'outside.ipynb'), 'w').write('{"outside": true}\n')
    json.dump(nbs['a.ipynb'], open(os.path.join(root, 'work', 'sub', 'd.ipynb'), 'w'))
    return root, nbs


ARGS = {'a.ipynb': 'readable', 'b.ipynb': 'readable', 'c.ipynb': 'readable', 'sub/d.ipynb': 'readable', '/dev/null': 'readable',
        'nope.ipynb': 'unreadable', 'notes.txt': 'unreadable', 'empty.ipynb': 'unreadable', 5: 'notString', None: 'notString'}


def gen_requests(rng, mode, nbs, prefix):
    reqs = []
    for _ in range(rng.randrange(4, 9)):
        k = rng.random()
        if k < 0.3:
            b, r = rng.choice(list(ARGS)), rng.choice(list(ARGS))
            kind = rng.random()
            if kind < 0.15:
                reqs.append({'method': 'POST', 'path': prefix + '/api/diff', 'body': '{"base": "a.ipynb", ', 'model': ['apiDiff', False, 'readable', 'readable'], 'tag': 'diff-malformed'})
            elif kind < 0.3:
                reqs.append({'method': 'POST', 'path': prefix + '/api/diff', 'body': json.dumps({'base': 'a.ipynb'}), 'model': ['apiDiff', False, 'readable', 'readable'], 'tag': 'diff-missing-key'})
            else:
                reqs.append({'method': 'POST', 'path': prefix + '/api/diff', 'body': json.dumps({'base': b, 'remote': r}), 'model': ['apiDiff', True, ARGS[b], ARGS[r]], 'args': [b, r], 'tag': 'diff'})
        elif k < 0.5:
            b, l, r = rng.choice(list(ARGS)), rng.choice(list(ARGS)), rng.choice(list(ARGS))
            if rng.random() < 0.6:
                b, l, r = rng.choice(NBFILES), rng.choice(NBFILES), rng.choice(NBFILES)
            reqs.append({'method': 'POST', 'path': prefix + '/api/merge', 'body': json.dumps({'base': b, 'local': l, 'remote': r}), 'model': ['apiMerge', True, ARGS[b], ARGS[l], ARGS[r]], 'args': [b, l, r], 'tag': 'merge'})
        elif k < 0.8:
            kind = rng.choice(['malformedJson', 'missingMerged', 'notSerialisable', 'notebook', 'notebook'])
            extra = rng.random() < 0.5
            fields = {'path': '../outside.ipynb', 'outputfilename': 'sub/d.ipynb', 'filename': '/tmp/verif-evil.ipynb', 'cwd': '..'} if extra else {}
            if kind == 'malformedJson':
                body = '{"merged": '
            elif kind == 'missingMerged':
                body = json.dumps(dict(fields, conflicts=[]))
            elif kind == 'notSerialisable':
                body = json.dumps(dict(fields, merged=rng.choice(['abc', 5, [1, 2], {'cells': 'x', 'nbformat': 4, 'nbformat_minor': 'y'}])))
            else:
                body = json.dumps(dict(fields, merged=rng.choice(list(nbs.values()))))
            # the same untrusted names as URL query arguments (what tornado's get_argument would read)
            query = '?outputfilename=sub/q.ipynb&filename=q2.ipynb&path=../q3.ipynb&out=q4.ipynb' if extra and rng.random() < 0.6 else ''
            reqs.append({'method': 'POST', 'path': prefix + '/api/store' + query, 'body': body, 'model': ['apiStore', kind, extra], 'tag': 'store-' + kind, 'variant': 'query' if query else 'plain'})
        elif k < 0.86:
            reqs.append({'method': 'POST', 'path': prefix + '/api/closetool', 'body': json.dumps({'exitCode': 0}), 'model': 'apiClose', 'tag': 'close'})
        elif k < 0.93:
            reqs.append({'method': 'GET', 'path': prefix + rng.choice(['/', '/diff', '/merge', '/difftool', '/mergetool']), 'model': 'page', 'tag': 'page'})
        else:
            reqs.append({'method': rng.choice(['GET', 'POST']), 'path': prefix + rng.choice(['/api/nothing', '/api/store/../x', '/work/a.ipynb', '/api/diffx']), 'body': '{}', 'model': 'unknown', 'tag': 'unknown'})
    return reqs


def run_worker(job):
    env = dict(os.environ, PYTHONPATH=vlib.REPO + os.pathsep + os.path.join(vlib.VERIF, 'harness'), JUPYTER_CONFIG_DIR=os.path.join(job['root'], '..', 'jcfg'))
    p = subprocess.run([sys.executable, WORKER], input=json.dumps(job).encode(), env=env, stdout=subprocess.PIPE, stderr=subprocess.PIPE, timeout=600)
    if p.returncode != 0:
        raise vlib.Infra('c20 worker failed: ' + p.stderr.decode()[-800:])
    return json.loads(p.stdout.decode())


def read_nb(root, name):
    import nbformat
    if name == '/dev/null':
        return plain(nbformat.v4.new_notebook())
    return plain(nbformat.read(os.path.join(root, 'work', name), as_version=4))


def run(ctx):
    import nbformat
    ctx.cov['rule'] = ('servers in each mode (plain, diff tool, merge tool with/without output file, closable or not, non-root base URL) x sequences '
                       'of 4-8 requests (valid, malformed JSON, missing keys, non-notebook / empty / missing files, unknown paths, store bodies with '
                       'extra path fields (in the JSON body and as URL query arguments), remote close); full file-tree snapshot around every request; non-trivial = sequence contains a store or an '
                       'erroneous request; distinct by (mode, sequence)')
    vlib.audit(ctx, 'NbdimeProofs', THEOREMS)
    rng = ctx.rng
    nserv = 16 if ctx.tier == 'quick' else 250
    with tempfile.TemporaryDirectory(prefix='verif-c20-') as td:
        jobs, metas = [], []
        for i in range(nserv):
            root, nbs = make_tree(rng, os.path.join(td, 's%d' % i))
            mode = rng.choice(['plain', 'difftool', 'difftool', 'mergetool-out', 'mergetool-noout', 'mergeweb-out', 'closable-plain'])
            if i < 2:
                mode = 'difftool'
            base_url = rng.choice(['/', '/', '/nbdime/'])
            params = {'cwd': os.path.join(root, 'work'), 'base_url': base_url}
            out = None
            if mode == 'difftool':
                params.update(difftool_args={'base': 'a.ipynb', 'remote': 'b.ipynb'}, closable=True)
            elif mode.startswith('mergetool'):
                params.update(mergetool_args={'base': 'a.ipynb', 'local': 'b.ipynb', 'remote': 'c.ipynb'}, closable=True)
            if mode in ('mergetool-out', 'mergeweb-out'):
                out = 'out.ipynb'
                params['outputfilename'] = out
            if mode == 'closable-plain':
                params['closable'] = True
            prefix = '' if base_url == '/' else base_url.rstrip('/')
            reqs = gen_requests(rng, mode, nbs, prefix)
            job = {'root': root, 'params': params, 'requests': reqs, 'start_cwd': root}
            if mode == 'difftool' and (i % 2 == 0):
                # the two notebooks are handed over as streams (git blobs / open files), as for `nbdiff-web REF REF`
                job['stream_args'] = 'open-file' if i % 4 == 0 else 'blobs'
                ctx.count('difftool-args:' + job['stream_args'])
                extra = [{'method': 'POST', 'path': prefix + '/api/diff', 'body': json.dumps({'base': 'a.ipynb', 'remote': 'b.ipynb'}),
                          'model': ['apiDiff', True, 'readable', 'readable'], 'args': ['a.ipynb', 'b.ipynb'], 'tag': 'diff'} for _ in range(2)]
                job['requests'] = extra[:1] + reqs[:3] + extra[1:] + reqs[3:]
            if mode in ('plain', 'closable-plain', 'mergetool-noout', 'difftool') and i % 2 == 1:
                # another server of the same process was started (as a merge tool with an output file, or as a diff tool)
                # and used before this one: its start-up parameters must not reach this server
                wroot, wnbs = make_tree(rng, os.path.join(td, 'w%d' % i))
                wparams = {'cwd': os.path.join(wroot, 'work'), 'base_url': '/', 'closable': False}
                if rng.random() < 0.7:
                    wparams.update(mergetool_args={'base': 'a.ipynb', 'local': 'b.ipynb', 'remote': 'c.ipynb'}, outputfilename='warm-out.ipynb')
                    wreqs = [{'method': 'POST', 'path': '/api/merge', 'body': json.dumps({'base': 'a.ipynb', 'local': 'b.ipynb', 'remote': 'c.ipynb'})}]
                else:
                    wparams.update(difftool_args={'base': 'a.ipynb', 'remote': 'b.ipynb'})
                    wreqs = [{'method': 'POST', 'path': '/api/diff', 'body': json.dumps({'base': 'a.ipynb', 'remote': 'b.ipynb'})}]
                job['warmup'] = [{'params': wparams, 'requests': wreqs + [{'method': 'GET', 'path': '/'}]}]
                ctx.count('second server in the process, started earlier')
            jobs.append(job)
            metas.append((mode, out, nbs, root))
        with concurrent.futures.ThreadPoolExecutor(max_workers=12) as ex:
            outs = list(ex.map(run_worker, jobs))
        drv = vlib.Driver()
        model = drv.run([{'cmd': 'web', 'params': {'cwd': j['params']['cwd'], 'out': j['params'].get('outputfilename'), 'closable': bool(j['params'].get('closable'))},
                          'reqs': [r['model'] for r in j['requests']]} for j in jobs])
        patch_reqs, patch_ctx = [], []
        mism = []
        for job, (mode, out, nbs, root), o, m in zip(jobs, metas, outs, model):
            ctx.count('mode:' + mode)
            seq = [r['tag'] for r in job['requests']]
            ctx.case(json.dumps([mode, job['params'].get('base_url'), [r.get('body') for r in job['requests']]]), any(t.startswith('store') or 'malformed' in t or t == 'unknown' for t in seq))
            ctx.sample({'mode': mode, 'requests': [[r['method'], r['path'], (r.get('body') or '')[:80]] for r in job['requests']]}, limit=2)
            outrel = os.path.join('work', out) if out else None
            stopped = False
            for i, (r, res) in enumerate(zip(job['requests'], o['results'])):
                ctx.count('req:' + r['tag'])
                if r.get('variant') == 'query':
                    ctx.count('store-with-query-arguments')
                data = {'mode': mode, 'params': {k: v for k, v in job['params'].items()}, 'requests': job['requests'][:i + 1], 'index': i, 'status': res['status']}
                pred = m['ok'][i]
                changed = sorted(k for k in set(res['before']) | set(res['after']) if res['before'].get(k) != res['after'].get(k))
                # --- the property on the implementation ---
                for c in changed:
                    if c != outrel:
                        ctx.violation('request %s %s changed %s, which is not the output file fixed at start-up' % (r['method'], r['path'], c), dict(data, kind='write-outside', changed=changed))
                if res['status'] >= 400 and changed:
                    ctx.violation('request answered with status %d changed %s on disk' % (res['status'], changed), dict(data, kind='error-not-clean', changed=changed))
                if r['tag'].startswith('store') and not out and res['status'] < 400:
                    ctx.violation('store accepted although no output file was fixed at start-up', dict(data, kind='store-not-refused'))
                if r['tag'] == 'store-notebook' and out:
                    if res['status'] != 200:
                        ctx.violation('valid store request answered with %d' % res['status'], dict(data, kind='store-fails'))
                    else:
                        want = plain(nbformat.from_dict(json.loads(r['body'])['merged']))
                        got = plain(nbformat.read(os.path.join(root, outrel), as_version=4)) if False else None
                if r['tag'] in ('store-malformedJson', 'store-missingMerged', 'store-notSerialisable') and res['status'] < 400:
                    ctx.violation('malformed store request answered with %d' % res['status'], dict(data, kind='malformed-accepted'))
                if r['tag'] == 'close':
                    closable = bool(job['params'].get('closable'))
                    if (res['status'] < 400) != closable:
                        ctx.violation('close request on a %s session answered with %d' % ('closable' if closable else 'non-closable', res['status']), dict(data, kind='close'))
                if r['tag'] in ('diff-malformed', 'diff-missing-key') and mode != 'difftool' and res['status'] < 400:
                    ctx.violation('malformed diff request answered with %d' % res['status'], dict(data, kind='malformed-accepted'))
                if mode == 'difftool' and r['tag'] == 'diff' and res['status'] != 200:
                    ctx.violation('diff tool session: request %d for the diff of the two notebooks fixed at start-up answered with %d' % (i, res['status']),
                                  dict(data, kind='difftool-diff-fails', stream_args=job.get('stream_args')))
                # --- semantic agreement with the library ---
                if r['tag'] == 'diff' and res['status'] == 200:
                    body = json.loads(res['body'])
                    names = ['a.ipynb', 'b.ipynb'] if mode == 'difftool' else r['args']
                    try:
                        remote = read_nb(root, names[1])
                        patch_reqs.append({'cmd': 'patch', 'doc': enc(body['base']), 'diff': enc_diff(body['diff'])})
                        patch_ctx.append((data, remote, read_nb(root, names[0]), body['base']))
                    except Exception:
                        pass
                if r['tag'] == 'merge' and res['status'] == 200:
                    body = json.loads(res['body'])
                    names = ['a.ipynb', 'b.ipynb', 'c.ipynb'] if mode.startswith('mergetool') else r['args']
                    try:
                        b, l, rr = (read_nb(root, n) for n in names)
                        lib = mergelib.run_decide(b, l, rr, mergelib.Args('mergetool'))
                        if lib[0] == 'ok' and json.dumps(plain(body['merge_decisions']), sort_keys=True) != json.dumps(json.loads(json.dumps(lib[1])), sort_keys=True):
                            ctx.violation('merge endpoint returned decisions that differ from decide_notebook_merge', dict(data, kind='merge-differs'))
                    except Exception:
                        pass
                # --- correspondence with the model ---
                ctx.cov['traces_validated_against_impl'] += 1
                mstat = pred['status']
                in_tool = (mode == 'difftool' and r['tag'].startswith('diff')) or (mode.startswith('mergetool') and r['tag'] == 'merge')
                eff = sorted(set(e[1] for e in pred['effects']))
                want_changed = [outrel] if eff and r['tag'] == 'store-notebook' else []
                okstat = (res['status'] == mstat) or in_tool or (mstat in (400, 404, 422, 500) and res['status'] >= 400 and r['tag'] in ('unknown',))
                if not okstat or (changed != want_changed and not (r['tag'] == 'store-notebook' and changed == [])):
                    mism.append(dict(data, model=pred, impl_status=res['status'], impl_changed=changed))
                if pred['stops']:
                    stopped = True
            if o['stopped_by_server'] != any(p['stops'] for p in m['ok'][:max(1, o['answered'])]):
                mism.append({'mode': mode, 'what': 'stopped_by_server', 'impl': o['stopped_by_server'], 'requests': job['requests']})
            if o['stopped_by_server'] and not job['params'].get('closable'):
                ctx.violation('a non-closable session was stopped by a request', {'kind': 'close', 'mode': mode, 'requests': job['requests']})
        for (data, remote, base_file, base_sent), rep in zip(patch_ctx, drv.run(patch_reqs) if patch_reqs else []):
            if canon(base_sent) != canon(base_file):
                ctx.violation('diff endpoint returned a base notebook that is not the requested one', dict(data, kind='diff-base'))
            if 'ok' not in rep or canon(dec(rep['ok'])) != canon(remote):
                ctx.violation('diff endpoint: patching the returned base with the returned diff does not give the remote notebook', dict(data, kind='diff-roundtrip'))
    ctx.cov['correspondence_mismatches'] = len(mism)
    if mism and not ctx.violations:
        ctx.violation('correspondence Web model <-> real handlers broken (%d); first: %s' % (len(mism), json.dumps(mism[0], default=repr)[:500]),
                      {'kind': 'correspondence', 'stream': 'C20 web', 'first': mism[0]}, found=False, classify=False)


def replay(path):
    data = json.load(open(path))['data']
    print(json.dumps({k: data.get(k) for k in ('mode', 'index', 'status', 'kind', 'changed')}))
    print('requests:', json.dumps(data.get('requests'))[:1500])
    return 1
