"""C05 merge obeys identity, one-sided adoption, agreement and side symmetry.
Lean: laws of the decision applier (Properties/C05.lean: identity on no decisions, invariance of the
applied result under exchanging the local/remote roles of every decision). Tie/search: the four laws
evaluated on the real merger for notebooks (every strategy family, three helpers) and, exhaustively,
for generic JSON triples of short lists / strings / objects over a small alphabet."""
import copy, itertools, json
import vlib, gen_nb
from vlib import enc, dec, canon, plain
from checks import mergelib

THEOREMS = ['Nbdime.C05_identity_no_decisions', 'Nbdime.C05_apply_swap', 'Nbdime.C05_symmetry_applied', 'Nbdime.resolveAction_swap']
SWAP = {'use-local': 'use-remote', 'use-remote': 'use-local'}


def swap_args(a):
    return mergelib.Args(SWAP.get(a.merge_strategy, a.merge_strategy), SWAP.get(a.input_strategy, a.input_strategy),
                         SWAP.get(a.output_strategy, a.output_strategy), a.ignore_transients)


def generic_merge(b, l, r):
    from nbdime.merging.generic import decide_merge
    from nbdime.merging.decisions import apply_decisions
    try:
        ds = decide_merge(copy.deepcopy(b), copy.deepcopy(l), copy.deepcopy(r))
        m = apply_decisions(copy.deepcopy(b), ds)
        return ('ok', plain(m), [plain(d) for d in ds])
    except Exception as e:
        return ('err', vlib.exc_class(e), '%s: %s' % (type(e).__name__, str(e)[:160]))


@vlib.classifier('empty-generic-merge')
def _cls_empty(data, finding):
    return data.get('kind') == 'generic-raises' and data.get('b') in ([], {}) and data.get('l') == data.get('b') == data.get('r')


@vlib.classifier('numeric-alias-merge')
def _cls_alias(data, finding):
    from checks.c02 import norm_alias
    if data.get('kind') == 'law' and 'got' in data:
        # notebook laws: merged differs from X only by numbers that Python's == identifies (False/0, 1/1.0 ...)
        got, want = dec(data['got']), dec(data['b'] if data.get('law') == 'identity' else data['x'])
        return canon(got) != canon(want) and canon(norm_alias(got)) == canon(norm_alias(want))
    if data.get('kind') == 'symmetry' and 'got' in data and 'got_swapped' in data:
        # both sides change a value to numbers that only Python's == identifies (1 / True): taken for an agreement, the merged
        # notebook holds the value of whichever side is called local. Mechanism check: at every differing place one result
        # holds the local value, the other the remote value
        m1, m2, l, r = dec(data['got']), dec(data['got_swapped']), dec(data['l']), dec(data['r'])
        if not (canon(m1) != canon(m2) and canon(norm_alias(m1)) == canon(norm_alias(m2))):
            return False

        def leaves(x, y, path=()):
            if isinstance(x, dict) and isinstance(y, dict):
                for k in x:
                    if k in y:
                        yield from leaves(x[k], y[k], path + (k,))
            elif isinstance(x, list) and isinstance(y, list):
                for i, (a_, b_) in enumerate(zip(x, y)):
                    yield from leaves(a_, b_, path + (i,))
            elif canon(x) != canon(y):
                yield path, x, y

        def at(doc, path):
            for k in path:
                doc = doc[k]
            return doc
        try:
            return all(canon(x) == canon(at(l, p)) and canon(y) == canon(at(r, p)) for p, x, y in leaves(m1, m2))
        except (KeyError, IndexError, TypeError):
            return False
    if data.get('kind') not in ('generic-law',):
        return False
    return canon(data.get('got')) != canon(data.get('want')) and canon(norm_alias(data.get('got'))) == canon(norm_alias(data.get('want')))


def laws_notebook(ctx, b, x, a, md):
    """identity / one-sided / agreement for base b and edit x"""
    for name, (l, r, want) in {'identity': (b, b, b), 'local-only': (x, b, x), 'remote-only': (b, x, x), 'agreement': (x, x, x)}.items():
        with mergelib.renderer(md):
            res = mergelib.run_merge(b, l, r, a)
        ctx.count('law:' + name)
        ctx.case(name + canon(b) + canon(x) + json.dumps(a.key()), name != 'identity' and canon(b) != canon(x))
        data = {'kind': 'law', 'law': name, 'b': enc(b), 'x': enc(x), 'strategy': a.key(), 'helper': md}
        if res[0] != 'ok':
            ctx.violation('%s merge raised %s under %s' % (name, res[2], a.key()), dict(data, kind='merge-raises', site=mergelib.LAST_ERROR_SITE[0]))
            continue
        if mergelib.has_conflict(res[2]):
            ctx.violation('%s merge reports a conflict under %s' % (name, a.key()), data)
        if canon(res[1]) != canon(want):
            ctx.violation('%s merge does not give %s under %s' % (name, 'base' if name == 'identity' else 'X', a.key()), dict(data, got=enc(res[1])))
        if name == 'identity' and res[2]:
            ctx.violation('merging identical notebooks produced decisions', data)


def symmetry_notebook(ctx, b, l, r, a, md, kinds):
    import nbdime
    d1 = plain(nbdime.diff_notebooks(mergelib.nbnode(b), mergelib.nbnode(l)))
    d2 = plain(nbdime.diff_notebooks(mergelib.nbnode(b), mergelib.nbnode(r)))
    if mergelib.concurrent_insert(d1, d2):
        ctx.count('symmetry:exempt-concurrent-insert')
        return
    with mergelib.renderer(md):
        r1 = mergelib.run_merge(b, l, r, a)
        r2 = mergelib.run_merge(b, r, l, swap_args(a))
    ctx.count('symmetry:checked')
    ctx.case('sym' + canon(b) + canon(l) + canon(r) + json.dumps(a.key()), True)
    data = {'kind': 'symmetry', 'b': enc(b), 'l': enc(l), 'r': enc(r), 'strategy': a.key(), 'helper': md, 'scenario': kinds}
    if r1[0] != 'ok' or r2[0] != 'ok':
        if (r1[0] == 'ok') != (r2[0] == 'ok'):
            ctx.violation('merge completes in one orientation only: %s / %s' % (r1[2] if r1[0] != 'ok' else 'ok', r2[2] if r2[0] != 'ok' else 'ok'), data)
        return
    c1, c2 = mergelib.has_conflict(r1[2]), mergelib.has_conflict(r2[2])
    if c1 != c2:
        ctx.violation('conflict verdict depends on which side is called local (%s vs %s) under %s' % (c1, c2, a.key()), data)
    elif not c1:
        known = mergelib.known_ids(b, l, r)
        if canon(mergelib.mask_new_ids(r1[1], known)) != canon(mergelib.mask_new_ids(r2[1], known)):
            ctx.violation('conflict-free merge differs when local and remote are swapped under %s' % a.key(), dict(data, got=enc(r1[1]), got_swapped=enc(r2[1])))


def small_docs():
    alpha = ['a', 'b', 'c']
    lists = [list(t) for n in range(0, 4) for t in itertools.product(alpha, repeat=n)]
    strs = [''.join(x + '\n' for x in t) for n in range(0, 3) for t in itertools.product(alpha, repeat=n)] + ['a', 'a\nb']
    dicts = [dict(zip('xy', t)) for t in itertools.product(alpha + [None], repeat=2)]
    dicts = [{k: v for k, v in d.items() if v is not None} for d in dicts]
    return lists, strs, dicts


def laws_generic(ctx, docs, limit, rng):
    triples = list(itertools.product(docs, repeat=3))
    if len(triples) > limit:
        # keep the corner cases (all equal, one-sided) and sample the rest
        corners = [(d, d, d) for d in docs] + [(d, e, d) for d in docs[:6] for e in docs[:6]] + [(d, d, e) for d in docs[:6] for e in docs[:6]]
        triples = corners + rng.sample(triples, max(0, limit - len(corners)))
    else:
        ctx.cov['exhaustive_generic'] = True
    for b, l, r in triples:
        res = generic_merge(b, l, r)
        ctx.count('generic:' + type(b).__name__)
        ctx.case('g' + canon(b) + canon(l) + canon(r), not (canon(b) == canon(l) == canon(r)))
        data = {'b': b, 'l': l, 'r': r}
        if res[0] != 'ok':
            ctx.violation('generic merge raised %s' % res[2], dict(data, kind='generic-raises', msg=res[2]))
            continue
        conflict = mergelib.has_conflict(res[2])
        want = None
        if canon(l) == canon(r):
            want = l
        elif canon(l) == canon(b):
            want = r
        elif canon(r) == canon(b):
            want = l
        if want is not None:
            if conflict:
                ctx.violation('generic merge reports a conflict for a one-sided / agreed change', dict(data, kind='generic-law-conflict'))
            elif canon(res[1]) != canon(want):
                ctx.violation('generic merge of a one-sided / agreed change gives %r, expected %r' % (res[1], want), dict(data, kind='generic-law', got=res[1], want=want))
        # symmetry
        from nbdime import diff
        try:
            if not mergelib.concurrent_insert(plain(diff(b, l)), plain(diff(b, r))):
                res2 = generic_merge(b, r, l)
                if res2[0] == 'ok':
                    if mergelib.has_conflict(res2[2]) != conflict:
                        ctx.violation('generic merge: conflict verdict depends on the side roles', dict(data, kind='generic-symmetry'))
                    elif not conflict and canon(res[1]) != canon(res2[1]):
                        ctx.violation('generic merge: conflict-free result depends on the side roles: %r vs %r' % (res[1], res2[1]), dict(data, kind='generic-symmetry', got=res[1], want=res2[1]))
        except Exception:
            pass


def _run_property(ctx):
    ctx.cov['rule'] = ('notebook laws: base b, edit X of b (random edit scripts) under a strategy family sample and each text helper; symmetry on triples '
                       'without concurrent insertions at the same position; generic JSON: all triples of lists (<=3 items), line strings and 2-key objects over '
                       '{a,b,c} (exhaustive in the thorough tier, sampled in quick); non-trivial = the three documents are not all equal; distinct by (law, inputs, strategy)')
    vlib.audit(ctx, 'NbdimeProofs', THEOREMS)
    rng = ctx.rng
    combos = mergelib.all_combos()
    n = 25 if ctx.tier == 'quick' else 400
    for t in range(n):
        b = gen_nb.gen_notebook(rng)
        x, _ = gen_nb.edit_notebook(rng, b, nedits=rng.choice([1, 2, 3]))
        if t % 4 == 3:
            # X declares another format minor than base: saved by an older client (ids stripped) or a newer one (ids added)
            m = rng.choice([k for k in range(0, 6) if k != b['nbformat_minor']])
            x['nbformat_minor'] = m
            used = gen_nb.used_ids(x)
            for c in x['cells']:
                if m >= 5:
                    c.setdefault('id', gen_nb.new_id(rng, used))
                else:
                    c.pop('id', None)
            if not gen_nb.is_valid(x):
                x['nbformat_minor'] = b['nbformat_minor']
            ctx.count('law-input:minor-changed')
        for a in [mergelib.Args('inline'), rng.choice(combos)] + ([rng.choice(combos)] if ctx.tier != 'quick' else []):
            laws_notebook(ctx, b, x, a, mergelib.RENDERERS[t % 3])
    for t in range(170 if ctx.tier == 'quick' else 1500):
        b, l, r, kinds = gen_nb.any_triple(rng)
        for a in [mergelib.Args('inline'), rng.choice(combos)]:
            symmetry_notebook(ctx, b, l, r, a, mergelib.RENDERERS[t % 3], kinds)
    lists, strs, dicts = small_docs()
    lim = 1200 if ctx.tier == 'quick' else 10 ** 9
    laws_generic(ctx, [x for x in lists if len(x) <= (2 if ctx.tier == 'quick' else 3)], lim, rng)
    laws_generic(ctx, dicts, lim, rng)
    laws_generic(ctx, strs, 600 if ctx.tier == 'quick' else lim, rng)
    ctx.sample({'law': 'local-only', 'statement': 'merge(b, X, b) == X without conflict'})


MERGE_MODEL_THEOREMS = ['Nbdime.C05_model_identity', 'Nbdime.C05_model_onesided_local', 'Nbdime.C05_model_onesided_remote', 'Nbdime.C05_model_agreement', 'Nbdime.C05_model_onesided_apply', 'Nbdime.C05_generic_onesided_adoption', 'Nbdime.C05_notebook_onesided_adoption', 'Nbdime.C05_model_keywise_apply', 'Nbdime.C05_model_onesided_apply_remote', 'Nbdime.C05_model_agreement_apply', 'Nbdime.C05_generic_onesided_adoption_remote', 'Nbdime.C05_notebook_onesided_adoption_remote', 'Nbdime.C05_generic_agreement_adoption', 'Nbdime.C05_notebook_agreement_adoption', 'Nbdime.C05_model_cells_symmetric', 'Nbdime.C05_model_keywise_symmetric', 'Nbdime.C05_model_mixed_symmetric']
THEOREMS.extend(t for t in MERGE_MODEL_THEOREMS if t not in THEOREMS)


def run(ctx):
    from checks import mergemodel
    _run_property(ctx)
    mergemodel.tie(ctx, (40, 60, 500, 800), MERGE_MODEL_THEOREMS)


def replay(path):
    _d = json.load(open(path))['data']
    if _d.get('kind') == 'correspondence' and _d.get('stream') == 'merge-model':
        from checks import mergemodel
        return mergemodel.replay_case(_d)
    return _replay_property(path)


def _replay_property(path):
    data = json.load(open(path))['data']
    ctx = vlib.Ctx('C05', 'quick', 0)
    k = data.get('kind', '')
    if k.startswith('generic'):
        laws_generic(ctx, [], 0, ctx.rng)
        res = generic_merge(data['b'], data['l'], data['r'])
        print('generic merge ->', res[:2])
        return 1
    if k.startswith('law'):
        laws_notebook(ctx, dec(data['b']), dec(data['x']), mergelib.Args(*data['strategy']), data.get('helper', 'git'))
    elif k == 'symmetry':
        symmetry_notebook(ctx, dec(data['b']), dec(data['l']), dec(data['r']), mergelib.Args(*data['strategy']), data.get('helper', 'git'), [])
    for what, p, found in ctx.violations:
        print('REPRODUCED:', what[:300])
    return 1 if ctx.violations else 0
