"""C15 browser-side patch and decision application agree with the Python side.
Lean: NbdimeModel/TsPatch.lean models the browser's line splitter; Properties/C15.lean proves it
agrees with Python's on every string without the eight exotic separators, and refutes agreement /
action-vocabulary inclusion by kernel-checked witnesses. Tie: the repository's real TypeScript
(patch, MergeDecision, applyDecisions, splitLines) executed under node >= 22 (type stripping, two npm
packages stubbed) on every (base, diff) and (base, decisions) the Python side produces; the Lean
splitter model is compared with the real TS splitter; the TS action list is extracted by regex."""
import copy, glob, json, os, re, subprocess
import vlib, gen_nb
from vlib import enc, dec, plain


def jsnum(v):
    """JavaScript has one number type: a value that went through the browser comes back without the distinction between 1 and 1.0
    (JSON.stringify(1.0) is "1"), and as JSON documents the two are the same number. Comparisons with the TypeScript side
    therefore identify integral floats with integers (booleans stay booleans)."""
    if isinstance(v, float) and v.is_integer() and abs(v) < 2 ** 53:
        return int(v)
    if isinstance(v, dict):
        return {k: jsnum(x) for k, x in v.items()}
    if isinstance(v, (list, tuple)):
        return [jsnum(x) for x in v]
    return v


def canon(v):
    return vlib.canon(jsnum(v))
from checks import mergelib, c01

THEOREMS = ['Nbdime.C15_same_split', 'Nbdime.join_splitLines', 'Nbdime.C15_vocab_refuted', 'Nbdime.C15_split_refuted']
EXOTIC = '\x0b\x0c\x1c\x1d\x1e\x85  '
TS_SRC = os.path.join(vlib.REPO, 'packages', 'nbdime', 'src')


def find_node():
    cands = sorted(glob.glob(os.path.expanduser('~/.nvm/versions/node/v2[2-9].*/bin/node')), reverse=True) + ['node']
    for c in cands:
        try:
            v = subprocess.run([c, '--version'], stdout=subprocess.PIPE, stderr=subprocess.PIPE).stdout.decode().strip().lstrip('v').split('.')
            if (int(v[0]), int(v[1])) >= (22, 13):
                return c
        except Exception:
            continue
    raise vlib.Infra('no node >= 22.13 found: the TypeScript side of C15 cannot be executed')


def run_ts(jobs):
    node = find_node()
    here = os.path.join(vlib.VERIF, 'harness', 'ts')
    p = subprocess.run([node, '--no-warnings', '--import', os.path.join(here, 'loader.mjs'), os.path.join(here, 'run.mjs'), TS_SRC],
                       input=json.dumps(jobs).encode('utf8'), stdout=subprocess.PIPE, stderr=subprocess.PIPE, timeout=1200)
    if p.returncode != 0:
        raise vlib.Infra('node runner failed: ' + p.stderr.decode()[-600:])
    return json.loads(p.stdout.decode('utf8'))


def extract_ts_actions():
    src = open(os.path.join(TS_SRC, 'merge', 'decisions.ts')).read()
    m = re.search(r'function validateAction\(.*?valueIn\(action, \[(.*?)\]\)', src, re.S)
    return re.findall(r"'([a-z_]+)'", m.group(1))


def strings_with_exotic(v):
    if isinstance(v, str):
        return any(c in v for c in EXOTIC) or any(ord(c) > 0xFFFF for c in v)
    if isinstance(v, dict):
        return any(strings_with_exotic(x) for x in v.values())
    if isinstance(v, list):
        return any(strings_with_exotic(x) for x in v)
    return False


JS_NOT_SEPARATORS = '\x0b\x0c\x1c\x1d\x1e\x85'      # Python splits on these, the browser does not
_PLACE = {c: chr(0xE000 + i) for i, c in enumerate(JS_NOT_SEPARATORS + '\u2028\u2029')}
_UNPLACE = {v: k for k, v in _PLACE.items()}


def _tr(v, table):
    if isinstance(v, str):
        return ''.join(table.get(c, c) for c in v)
    if isinstance(v, dict):
        return {_tr(k, table): _tr(x, table) for k, x in v.items()}
    if isinstance(v, (list, tuple)):
        return [_tr(x, table) for x in v]
    return v


def python_with_js_splitting(kind, base, payload):
    """what Python's patch / apply_decisions give on the same payload if the characters only Python treats as line
    separators are not separators (they are replaced by private-use characters for the computation): the behaviour
    finding F-splitlines describes; `None` if that computation fails"""
    from checks import c02, c09
    try:
        b, p = _tr(base, _PLACE), _tr(payload, _PLACE)
        if kind == 'patch':
            r = c02.impl_patch(b, p)
        else:
            r = c09.impl_apply(b, p)
        return _tr(r[1], _UNPLACE) if r[0] == 'ok' else None
    except Exception:
        return None


def neutralised_agrees(kind, meta):
    """F-splitlines says: the two sides differ *because of* the eight separators. Decide it: replace those characters by
    private-use characters in the inputs, recompute the payload with Python (diff or merge decisions), and run the real
    TypeScript and Python on it again: if they agree now, the separators were the cause."""
    try:
        if kind == 'patch':
            a, b = _tr(meta['neutral'][0], _PLACE), _tr(meta['neutral'][1], _PLACE)
            r, _ = c01.impl_diffnb(a, b)
            if r[0] != 'ok':
                return False
            ip = c01.impl_patchnb(a, r[1])
            res = run_ts([{'kind': 'patch', 'base': a, 'diff': r[1]}])[0]
            return ip[0] == 'ok' and res['ok'] and canon(res['value']) == canon(ip[1])
        b, l, r = (_tr(x, _PLACE) for x in meta['neutral'])
        m = mergelib.run_merge(b, l, r, mergelib.Args('mergetool'))
        if m[0] != 'ok':
            return False
        res = run_ts([{'kind': 'apply', 'base': b, 'decisions': m[2]}])[0]
        return res['ok'] and canon(res['value']) == canon(m[1])
    except Exception:
        return False


def diff_leaves(x, y, path=()):
    """paths at which two JSON values differ"""
    if type(x) is not type(y):
        return [(path, x, y)]
    if isinstance(x, dict):
        out = []
        for k in set(x) | set(y):
            if k not in x or k not in y:
                out.append((path + (k,), x.get(k), y.get(k)))
            else:
                out += diff_leaves(x[k], y[k], path + (k,))
        return out
    if isinstance(x, list):
        if len(x) != len(y):
            return [(path, x, y)]
        out = []
        for i, (a, b) in enumerate(zip(x, y)):
            out += diff_leaves(a, b, path + (i,))
        return out
    return [] if x == y else [(path, x, y)]


SPLITTER_AS_PINNED = [True]     # set per run: does the real TS splitLines still behave as the pinned model?


@vlib.classifier('ts-splitlines')
def _cls_split(data, finding):
    """the only differences are string values that contain a separator Python splits on and the
    browser does not (or drops): \\v \\f \\x1c \\x1d \\x1e \\x85 U+2028 U+2029 -- and the browser's
    splitter still behaves exactly as the pinned model (otherwise nothing is attributed to this finding)"""
    if data.get('kind') not in ('ts-differs', 'ts-throws-validation') or not SPLITTER_AS_PINNED[0]:
        return False
    return bool(data.get('only_exotic_strings'))


@vlib.classifier('ts-utf16')
def _cls_utf16(data, finding):
    return data.get('kind') in ('ts-differs', 'ts-throws-validation') and bool(data.get('only_astral_strings'))


@vlib.classifier('ts-action')
def _cls_action(data, finding):
    return data.get('kind') == 'ts-throws' and any(('Invalid merge decision action: ' + a) in data.get('error', '') for a in finding['param']['actions'])


def evaluate(ctx, job, meta, res):
    kind, want, base = meta['kind'], meta['want'], job['base']
    data = {'kind': None, 'job_kind': kind, 'base': enc(base), 'payload': job.get('diff') if kind == 'patch' else job.get('decisions'), 'want': enc(want), 'scenario': meta.get('scenario')}
    ctx.count('ts:' + kind)
    ctx.cov['traces_validated_against_impl'] += 1
    if not res['ok']:
        exo = strings_with_exotic(base)
        k = 'ts-throws'
        if 'Invalid merge decision action' not in res['error'] and exo:
            k = 'ts-throws-validation'
            if any(c in json.dumps(base, ensure_ascii=False) for c in EXOTIC) and 'neutral' in meta:
                exo = neutralised_agrees(kind, meta)
                ctx.count('F-splitlines: neutralised re-run %s' % ('agrees' if exo else 'still differs'))
        ctx.violation('the TypeScript %s rejects what the server sent: %s' % ('patch' if kind == 'patch' else 'applyDecisions', res['error'][:160]),
                      dict(data, kind=k, error=res['error'], only_exotic_strings=exo and any(c in json.dumps(base, ensure_ascii=False) for c in EXOTIC),
                           only_astral_strings=exo and any(ord(c) > 0xFFFF for c in json.dumps(base, ensure_ascii=False))))
        return
    got = res['value']
    if canon(got) != canon(want):
        leaves = diff_leaves(got, want)
        def base_at(path):
            v = base
            try:
                for k in path:
                    v = v[k]
            except (KeyError, IndexError, TypeError):
                return ''
            return v if isinstance(v, str) else ''
        only_str = all(isinstance(a, str) and isinstance(b, str) for _, a, b in leaves)
        # the patched string (before or after) contains one of the separators the two languages treat differently
        exo = only_str and all(any(c in (a + b + base_at(p)) for c in EXOTIC) for p, a, b in leaves)
        if only_str and not exo and 'neutral' in meta:
            # list indices shift when items are inserted or removed, and a removed line takes its separator with it: the
            # separator need not be visible at the differing path; any exotic separator in the payload makes the case a
            # candidate, the neutralised re-run below decides
            blob = json.dumps(base, ensure_ascii=False) + json.dumps(data['payload'], ensure_ascii=False)
            exo = any(c in blob for c in EXOTIC)
        if exo and 'neutral' in meta:
            # decided, not assumed: with the separators neutralised in the inputs the two sides must agree
            exo = neutralised_agrees(kind, meta)
            ctx.count('F-splitlines: neutralised re-run %s' % ('agrees' if exo else 'still differs'))
        astral = only_str and not exo and all(any(ord(c) > 0xFFFF for c in (a + b + base_at(p))) for p, a, b in leaves)
        ctx.violation('the TypeScript %s gives a different document than Python at %s' % ('patch' if kind == 'patch' else 'applyDecisions', [list(p) for p, _, _ in leaves][:3]),
                      dict(data, kind='ts-differs', got=enc(got), only_exotic_strings=exo, only_astral_strings=astral))


TS_PATCH_THEOREMS = ['Nbdime.C15_ts_patch_eq', 'Nbdime.C15_ts_roundtrip_generic', 'Nbdime.C15_ts_roundtrip_notebook']
THEOREMS.extend(TS_PATCH_THEOREMS)


def mutate_diff(rng, base, d):
    """a few ill-formed variants of a diff (out-of-range keys, repeated keys, wrong entry kinds): the model has to reject
    exactly what the browser rejects"""
    out = []
    d = copy.deepcopy(d)
    def walk(doc, dd):
        yield doc, dd
        for e in dd:
            if e.get('op') == 'patch' and isinstance(e.get('diff'), list):
                try:
                    sub = doc[e['key']]
                except (KeyError, IndexError, TypeError):
                    continue
                if isinstance(sub, (dict, list)):
                    yield from walk(sub, e['diff'])
    spots = list(walk(base, d))
    for _ in range(2):
        dd = copy.deepcopy(d)
        spots2 = list(walk(base, dd))
        doc, lst = rng.choice(spots2)
        if not lst:
            continue
        e = rng.choice(lst)
        kind = rng.choice(['key-out', 'dup', 'len', 'wrongkey'])
        if kind == 'key-out' and isinstance(e.get('key'), int):
            e['key'] = e['key'] + len(doc) + 3
        elif kind == 'dup':
            lst.append(copy.deepcopy(e))
        elif kind == 'len' and e.get('op') == 'removerange':
            e['length'] = e['length'] + len(doc) + 1
        elif kind == 'wrongkey' and isinstance(e.get('key'), str):
            e['key'] = e['key'] + '-absent'
        else:
            continue
        out.append((base, dd))
    return out


def run(ctx):
    ctx.cov['rule'] = ('(base, diff) pairs from diff_notebooks on generated notebook pairs and (base, decisions) pairs from the merger under the web tool strategy on '
                       'generated triples (incl. minor-version conflicts and strings with every separator Python knows), each run through the real TypeScript and '
                       'compared with the Python result; non-trivial = non-empty diff / decision list; distinct by payload')
    vlib.audit(ctx, 'NbdimeProofs', THEOREMS)
    # extraction: TS action vocabulary
    note = None
    try:
        acts = extract_ts_actions()
        src = ('import NbdimeProofs\nopen Nbdime\n'
               'example : Ts.actionsPinned = [%s] := by decide\n' % ', '.join(json.dumps(a) for a in acts))
        ok, out = vlib.lean_run(src, 'C15_Tables.lean')
        ctx.cov['obligations'] += 1
        ctx.cov['extracted_ts_actions'] = acts
        if ok:
            ctx.cov['discharged'] += 1
        else:
            note = out[-400:]
    except Exception as e:
        note = 'extractor failed: %r' % (e,)
    rng = ctx.rng
    jobs, metas = [], []
    npairs, ntriples = (120, 70) if ctx.tier == 'quick' else (3000, 1500)
    for it in range(npairs):
        a, b, kinds = gen_nb.pair(rng)
        if it % 12 == 0 and a['cells']:
            # value shapes the two patchers must agree on: an inserted list item that is itself a list / empty list / object
            a, b = copy.deepcopy(a), copy.deepcopy(a)
            c = rng.choice(b['cells'])
            rows = [[1, 2], [3, 4], [], [[5]], {'k': [6]}]
            ai = a['cells'][b['cells'].index(c)]
            ai['metadata']['grid'] = [rows[0], rows[1]]
            g = [rows[0], rows[1]]
            g.insert(rng.randrange(3), copy.deepcopy(rng.choice(rows)))
            if rng.random() < 0.5:
                g.insert(rng.randrange(len(g) + 1), copy.deepcopy(rng.choice(rows)))
            c['metadata']['grid'] = g
            kinds = ['list-valued-insert']
        if rng.random() < 0.15 and a['cells']:
            c = rng.choice(a['cells'])
            c['source'] = c['source'] + '\nemoji \U0001F600 line\nx'
            b = copy.deepcopy(b)
        r, _ = c01.impl_diffnb(a, b)
        if r[0] != 'ok':
            continue
        ip = c01.impl_patchnb(a, r[1])
        if ip[0] != 'ok':
            continue
        jobs.append({'kind': 'patch', 'base': a, 'diff': r[1]})
        metas.append({'kind': 'patch', 'want': ip[1], 'scenario': kinds, 'neutral': (a, b)})
        ctx.case('p' + canon(a) + vlib.canon_diff(r[1]), bool(r[1]))
    from checks import c09
    # scenarios whose decisions sit on line paths (character-level diffs inside one line, next to line-level decisions)
    lineish = ['same-inline-edit-plus-insert', 'same-line', 'different-lines', 'two-conflict-regions']
    for t in range(ntriples + (24 if ctx.tier == 'quick' else 400)):
        if t < ntriples:
            b, l, r, kinds = gen_nb.any_triple(rng, minor_change=rng.random() < 0.3)
        else:
            b, l, r, kinds = gen_nb.triple_scenario(rng, first=lineish[t % len(lineish) if t % 2 else 0])
        res = mergelib.run_merge(b, l, r, mergelib.Args('mergetool'))
        if res[0] != 'ok':
            continue
        jobs.append({'kind': 'apply', 'base': b, 'decisions': res[2]})
        metas.append({'kind': 'apply', 'want': res[1], 'scenario': kinds, 'neutral': (b, l, r)})
        ctx.case('d' + canon(b) + json.dumps(res[2], sort_keys=True), bool(res[2]))
        if res[2] and len(json.dumps(res[2])) < 500:
            ctx.sample({'decisions': res[2]}, limit=2)
    # splitter: real TS vs Lean model vs Python
    texts = [gen_nb.text(rng, gen_nb.CODE_LINES, 5) for _ in range(60)] + ['', 'a', 'a\n', 'a\r\nb\rc\n', 'x y', 'p\x0cq\n', '\n\n', '\r\r\n']
    sjobs = [{'kind': 'splitlines', 'text': t} for t in texts]
    results = run_ts(jobs + sjobs)
    model = vlib.Driver().run([{'cmd': 'tssplit', 'text': t} for t in texts])
    mism = []
    for t, res, m in zip(texts, results[len(jobs):], model):
        ctx.count('splitter-case')
        if not res['ok'] or res['value'] != m.get('ok'):
            mism.append({'text': t, 'ts': res, 'model': m})
    ctx.cov['correspondence_mismatches'] = len(mism)
    SPLITTER_AS_PINNED[0] = not mism
    for job, meta, res in zip(jobs, metas, results[:len(jobs)]):
        evaluate(ctx, job, meta, res)
    # the Lean model of the browser-side patcher (Ts.patch: patchSequence / patchObject / patchString + flattenStringDiff)
    # against the real TypeScript, on every (base, diff) pair and on ill-formed variants of the diffs
    pjobs = [(j['base'], j['diff']) for j in jobs if j['kind'] == 'patch']
    bad = []
    for base, d in pjobs[:40]:
        bad.extend(mutate_diff(rng, base, d))
    bad_results = run_ts([{'kind': 'patch', 'base': b_, 'diff': d_} for b_, d_ in bad]) if bad else []
    allp = pjobs + bad
    allres = [r for j, r in zip(jobs, results[:len(jobs)]) if j['kind'] == 'patch'] + bad_results
    tsmodel = vlib.Driver().run([{'cmd': 'tspatch', 'doc': enc(b_), 'diff': vlib.enc_diff(d_)} for b_, d_ in allp])
    pm = []
    for (b_, d_), res, m in zip(allp, allres, tsmodel):
        ctx.count('ts-patch-model:' + ('ok' if res['ok'] else 'rejects'))
        ctx.cov['traces_validated_against_impl'] += 1
        if res['ok'] != ('ok' in m) or (res['ok'] and canon(res['value']) != canon(dec(m['ok']))):
            pm.append({'base': enc(b_), 'diff': vlib.enc_diff(d_), 'ts': json.dumps(res)[:300], 'model': json.dumps(m)[:300]})
        # domain of C15_ts_patch_eq (canonical base, no exotic separator in any string, diff well-formed), evaluated by the
        # driver: inside it the two model patchers agree (a theorem), hence so must the two implementations
        if m.get('domain') is True:
            ctx.count('theorem-domain:ts_patch_eq')
            ctx.cov['theorem_hypothesis_checks'] = ctx.cov.get('theorem_hypothesis_checks', 0) + 1
            py = m.get('python', {})
            if ('ok' in m) != ('ok' in py) or ('ok' in m and json.dumps(m['ok'], sort_keys=True) != json.dumps(py['ok'], sort_keys=True)):
                raise vlib.Infra('driver contradicts C15_ts_patch_eq')
        elif 'domain' in m:
            ctx.count('theorem-domain:ts_patch_eq-outside (exotic separator / ill-formed variant)')
    ctx.cov['correspondence_mismatches'] += len(pm)
    # the Lean model of the browser-side applier (Ts.applyDecisions: resolveAction, splitDiffStringPath, pushPath, the action
    # check of the MergeDecision constructor; no combine_patches) against the real TypeScript, on every (base, decisions)
    # payload and on variants with another action / a missing diff
    from checks import c09
    ajobs = [(j['base'], j['decisions']) for j in jobs if j['kind'] == 'apply']
    ares = [r for j, r in zip(jobs, results[:len(jobs)]) if j['kind'] == 'apply']
    variants = []
    for base_, ds_ in ajobs[:60]:
        if not ds_:
            continue
        v = copy.deepcopy(ds_)
        d_ = rng.choice(v)
        how = rng.choice(['action', 'action', 'nodiff', 'drop'])
        if how == 'action':
            d_['action'] = rng.choice(['base', 'local', 'remote', 'either', 'local_then_remote', 'remote_then_local', 'clear_parent', 'clear', 'custom'])
        elif how == 'nodiff':
            d_[rng.choice(['local_diff', 'remote_diff'])] = None
        else:
            v.remove(d_)
        variants.append((base_, v))
    vres = run_ts([{'kind': 'apply', 'base': b_, 'decisions': d_} for b_, d_ in variants]) if variants else []
    alla, allar = ajobs + variants, ares + vres
    amodel = vlib.Driver().run([{'cmd': 'tsapply', 'base': enc(b_), 'decisions': c09.enc_decisions(d_)} for b_, d_ in alla]) if alla else []
    am = []
    for i, ((b_, d_), res, m) in enumerate(zip(alla, allar, amodel)):
        ts = m.get('ts', {})
        ctx.cov['traces_validated_against_impl'] += 1
        if 'ok' not in ts and ts.get('what') == 'unmodelled':
            ctx.count('ts-apply-model:outside the model')
            continue
        ctx.count('ts-apply-model:' + ('ok' if res['ok'] else 'rejects') + (':variant' if i >= len(ajobs) else ''))
        if res['ok'] != ('ok' in ts) or (res['ok'] and canon(res['value']) != canon(dec(ts['ok']))):
            am.append({'base': enc(b_), 'decisions': d_, 'ts': json.dumps(res)[:300], 'model': json.dumps(ts)[:300]})
        py = m.get('py', {})
        if 'ok' in ts and 'ok' in py:
            ctx.count('ts-apply-model:both appliers succeed' + (' and agree' if json.dumps(ts['ok'], sort_keys=True) == json.dumps(py['ok'], sort_keys=True) else ' and differ'))
    ctx.cov['correspondence_mismatches'] += len(am)
    if am and not ctx.violations:
        ctx.violation('correspondence Ts.applyDecisions model <-> real TypeScript applyDecisions broken (%d); first: %s' % (len(am), json.dumps(am[0])[:600]),
                      {'kind': 'correspondence', 'stream': 'C15 tsapply', 'first': am[0]}, found=False, classify=False)
    if pm and not ctx.violations:
        ctx.violation('correspondence Ts.patch model <-> real TypeScript patch broken (%d); first: %s' % (len(pm), json.dumps(pm[0])[:400]),
                      {'kind': 'correspondence', 'stream': 'C15 tspatch', 'first': pm[0], 'theorems': TS_PATCH_THEOREMS}, found=False, classify=False)
    if note and not ctx.violations:
        ctx.violation('generated obligation (extracted TS action list = Ts.actionsPinned) no longer checks: ' + note,
                      {'kind': 'obligation', 'theorem': 'gen/C15_Tables.lean', 'output': note}, found=False, classify=False)
    if mism and not ctx.violations:
        ctx.violation('correspondence Ts.splitLines model <-> real TypeScript splitLines broken (%d); first: %s' % (len(mism), json.dumps(mism[0])[:300]),
                      {'kind': 'correspondence', 'stream': 'C15 tssplit', 'first': mism[0]}, found=False, classify=False)


def replay(path):
    data = json.load(open(path))['data']
    if 'payload' not in data:
        print(json.dumps(data)[:800])
        return 1
    job = {'kind': data['job_kind'], 'base': dec(data['base'])}
    job['diff' if data['job_kind'] == 'patch' else 'decisions'] = data['payload']
    res = run_ts([job])[0]
    print('TypeScript ->', json.dumps(res)[:400])
    return 1 if (not res['ok'] or canon(res['value']) != canon(dec(data['want']))) else 0
