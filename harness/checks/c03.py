"""C03 three-way merge always completes for valid notebooks under every strategy.
Lean obligations regenerated every run: (a) the strategy table notebook_merge_strategies builds for
every accepted option combination uses only strategies the resolvers implement for that path
(C03.strategyTableOk, `decide`); (b) the chunk-type switch of _merge_lists (literals extracted by an
AST walk) covers all 36 combinations of chunk shapes (C03.switchCovers, `decide`). Tie/search: the
real merger on generated triples x strategy combinations x the three text-merge helpers."""
import ast, json, os
import vlib, gen_nb
from vlib import enc, canon
from checks import mergelib

THEOREMS = ['Nbdime.C03_switch_total', 'Nbdime.C03_strategy_table_sound']
PATHS = ['/', '/cells', '/cells/*/id', '/nbformat', '/cells/*/cell_type', '/nbformat_minor', '/cells/*/execution_count',
         '/cells/*/outputs/*/execution_count', '/metadata', '/cells/*/metadata', '/cells/*/outputs/*/metadata', '/cells/*/source',
         '/cells/*/attachments', '/cells/*/outputs']


def extract_strategy_tables():
    from nbdime.merging.notebooks import notebook_merge_strategies
    rows = []
    for a in mergelib.all_combos():
        s = notebook_merge_strategies(a)
        rows.append((a.key(), sorted((k, v) for k, v in dict(s).items() if v is not None), sorted(getattr(s, 'transients', []) or [])))
    return rows


def extract_switch():
    src = open(os.path.join(vlib.REPO, 'nbdime', 'merging', 'generic.py')).read()
    fn = [f for f in ast.parse(src).body if isinstance(f, ast.FunctionDef) and f.name == '_merge_lists'][0]
    lits = {'chunktype': set(), 'pchunktype': set(), 'achunktype': set()}
    for node in ast.walk(fn):
        if isinstance(node, ast.Compare) and isinstance(node.left, ast.Name) and node.left.id in lits:
            for comp in node.comparators:
                if isinstance(comp, ast.Constant):
                    lits[node.left.id].add(comp.value)
                elif isinstance(comp, (ast.Tuple, ast.List)):
                    lits[node.left.id].update(e.value for e in comp.elts if isinstance(e, ast.Constant))
    return {k: sorted(v) for k, v in lits.items()}


def lean_strategy_function_obligation(tables):
    """the Lean function Merge.notebookStrategies equals notebook_merge_strategies on every accepted option combination"""
    def opt(x):
        return 'none' if x is None else '(some %s)' % json.dumps(x)
    rows = []
    for key, tab, tr in tables:
        m, i, o, t = key
        rows.append('  ((⟨%s, %s, %s, %s⟩ : Merge.MergeArgs), [%s], [%s])' % (
            json.dumps(m), opt(i), opt(o), 'true' if t else 'false',
            ', '.join('(%s, %s)' % (json.dumps(k), json.dumps(v)) for k, v in tab), ', '.join(json.dumps(x) for x in tr)))
    return ('import NbdimeProofs\nopen Nbdime\n'
            'def extractedRows : List (Merge.MergeArgs × List (String × String) × List String) := [\n' + ',\n'.join(rows) + '\n]\n'
            'set_option maxRecDepth 1000000 in\nexample : extractedRows.all (fun r => (Merge.notebookStrategies r.1).table == r.2.1 && '
            'sortStrs (Merge.notebookStrategies r.1).transients == r.2.2) = true := by decide +kernel\n'), 1


def lean_obligations(tables, switch):
    def sl(xs):
        return '[' + ', '.join(json.dumps(x) for x in xs) + ']'
    rows = ',\n'.join('  [' + ', '.join('(%s, %s)' % (json.dumps(k), json.dumps(v)) for k, v in tab) + ']' for _, tab, _ in tables)
    src = ('import NbdimeProofs\nopen Nbdime\n'
           'def extractedTables : List (List (String × String)) := [\n' + rows + '\n]\n'
           'set_option maxRecDepth 100000 in\nexample : extractedTables.length = %d := by decide +kernel\n' % len(tables) +
           'set_option maxRecDepth 100000 in\nexample : extractedTables.all C03.strategyTableOk = true := by decide +kernel\n'
           'example : C03.switchCovers %s %s = true := by decide\n' % (sl(switch['chunktype']), sl(switch['pchunktype'])))
    return src, 3


def _run_property(ctx):
    ctx.cov['rule'] = ('notebook triples (independent edit scripts and targeted conflict scenarios: concurrent similar/dissimilar inserts, delete-vs-edit, '
                       'same-line edits, outputs, metadata, attachments, minor-version changes) x strategy combinations (all 4x5x7x2 + mergetool, sampled in '
                       'the quick tier so that every option value occurs) x text merge helper {git merge-file, diff3, built-in}; non-trivial = the merge '
                       'produced at least one decision; distinct by (triple, strategy, helper)')
    vlib.audit(ctx, 'NbdimeProofs', THEOREMS)
    note = None
    try:
        tables, switch = extract_strategy_tables(), extract_switch()
        src, n = lean_obligations(tables, switch)
        ok, out = vlib.lean_run(src, 'C03_Tables.lean')
        ctx.cov['obligations'] += n
        src2, n2 = lean_strategy_function_obligation(tables)
        ok2, out2 = vlib.lean_run(src2, 'C03_StrategyFunction.lean')
        ctx.cov['obligations'] += n2
        if ok2:
            ctx.cov['discharged'] += n2
        else:
            note = 'Merge.notebookStrategies differs from notebook_merge_strategies: ' + out2[-500:]
        ctx.cov['extracted'] = {'combinations': len(tables), 'switch_literals': switch, 'sample_table': tables[0]}
        if ok:
            ctx.cov['discharged'] += n
        else:
            note = out[-600:]
    except Exception as e:
        note = 'extractor failed: %r' % (e,)
    rng = ctx.rng
    ntriples = 150 if ctx.tier == 'quick' else 1500
    combos = mergelib.all_combos()
    for t in range(ntriples):
        b, l, r, kinds = gen_nb.any_triple(rng, minor_change=rng.random() < 0.2)
        chosen = mergelib.covering_combos(rng, 9) if ctx.tier == 'quick' and t % 15 == 0 else ([mergelib.Args('inline')] + rng.sample(combos, 2) if ctx.tier == 'quick' else combos if t % 10 == 0 else rng.sample(combos, 30))
        if ctx.tier == 'quick' and any(('output' in k or k in ('both-outputs', 'cell:rerun')) for k in kinds):
            # output scenarios: every output strategy once
            chosen = list(chosen) + [mergelib.Args(rng.choice(mergelib.MERGE), rng.choice(mergelib.INPUT), o, rng.random() < 0.7) for o in mergelib.OUTPUT]
        for a in chosen:
            mode = mergelib.RENDERERS[(t + len(a.key()[1] or '')) % 3] if ctx.tier == 'quick' else None
            for md in ([mode] if mode else mergelib.RENDERERS):
                with mergelib.renderer(md):
                    res = mergelib.run_merge(b, l, r, a)
                ctx.count('helper:' + md)
                ctx.count('merge:' + str(a.merge_strategy))
                for k in kinds[:1]:
                    ctx.count('scenario:' + k)
                ctx.case(canon(b) + canon(l) + canon(r) + json.dumps(a.key()) + md, res[0] != 'ok' or bool(res[2]))
                if res[0] != 'ok':
                    ctx.violation('merge aborted under %s with %s: %s' % (a.key(), md, res[2]),
                                  {'kind': 'merge-raises', 'b': enc(b), 'l': enc(l), 'r': enc(r), 'strategy': a.key(), 'helper': md, 'msg': res[2], 'site': mergelib.LAST_ERROR_SITE[0]})
                elif len(ctx.cov['samples']) < 2 and res[2]:
                    ctx.sample({'scenario': kinds, 'strategy': a.key(), 'helper': md, 'decisions': len(res[2]), 'conflicts': sum(1 for d in res[2] if d.get('conflict'))})
    if note and not ctx.violations:
        ctx.violation('generated obligations (strategy tables / chunk switch coverage) no longer check: ' + note,
                      {'kind': 'obligation', 'theorem': 'gen/C03_Tables.lean', 'output': note}, found=False, classify=False)


MERGE_MODEL_THEOREMS = ['Nbdime.C03_model_keywise_total', 'Nbdime.C03_model_cells_total', 'Nbdime.C03_model_mixed_total', 'Nbdime.makeMergeChunks_ok']
THEOREMS.extend(t for t in MERGE_MODEL_THEOREMS if t not in THEOREMS)


def run(ctx):
    from checks import mergemodel
    _run_property(ctx)
    mergemodel.tie(ctx, (60, 20, 800, 300), MERGE_MODEL_THEOREMS)


def replay(path):
    _d = json.load(open(path))['data']
    if _d.get('kind') == 'correspondence' and _d.get('stream') == 'merge-model':
        from checks import mergemodel
        return mergemodel.replay_case(_d)
    return _replay_property(path)


def _replay_property(path):
    from vlib import dec
    data = json.load(open(path))['data']
    if 'b' not in data:
        print(json.dumps(data)[:600])
        return 1
    with mergelib.renderer(data.get('helper', 'git')):
        res = mergelib.run_merge(dec(data['b']), dec(data['l']), dec(data['r']), mergelib.Args(*data['strategy']))
    print('merge ->', res[0], res[2] if res[0] != 'ok' else '')
    return 1 if res[0] != 'ok' else 0
