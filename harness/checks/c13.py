"""C13 diff, patch, merge and rendering never modify their inputs.
Lean: Properties/C13.lean (pop/restore of `data` is the identity on key-sorted objects; provenance
model of patch_list: the patched document is never aliased by the result, the diff is). Search: deep
typed-canonical snapshots of every argument before and after each public function, over the input
spaces of C01-C03; then the returned result is mutated everywhere and the inputs are snapshotted again."""
import copy, io, json
import vlib, gen_json, gen_nb
from vlib import enc, dec, canon, plain
from checks import mergelib

THEOREMS = ['Nbdime.C13_restore_pop', 'Nbdime.C13_patch_never_aliases_base', 'Nbdime.C13_patch_aliases_diff_refuted', 'Nbdime.patchFromProv_values']


def snap(x):
    return json.dumps(vlib.enc(plain_any(x)), sort_keys=True)


def plain_any(v):
    if isinstance(v, dict):
        return {str(k): plain_any(x) for k, x in v.items()}
    if isinstance(v, (list, tuple)):
        return [plain_any(x) for x in v]
    return v


def scribble(v, depth=0):
    """mutate a returned value everywhere it can be mutated"""
    if depth > 12:
        return
    if isinstance(v, dict):
        for x in list(v.values()):
            scribble(x, depth + 1)
        try:
            v['__verif_scribble__'] = 1
        except Exception:
            pass
    elif isinstance(v, list):
        for x in v:
            scribble(x, depth + 1)
        try:
            v.append('__verif_scribble__')
        except Exception:
            pass


@vlib.classifier('result-alias')
def _cls_alias(data, finding):
    return data.get('kind') == 'result-alias' and [data.get('function'), data.get('arg')] in finding['param']['function_args']


def call(ctx, name, fn, args, kwargs=None, check_alias=True):
    before = [snap(a) for a in args]
    try:
        res = fn(*args, **(kwargs or {}))
        err = None
    except Exception as e:
        res, err = None, '%s: %s' % (type(e).__name__, str(e)[:120])
    after = [snap(a) for a in args]
    ctx.count('fn:' + name)
    ctx.case(name + ''.join(before), True)
    for i, (x, y) in enumerate(zip(before, after)):
        if x != y:
            ctx.violation('%s modified its argument #%d%s' % (name, i, ' (and raised %s)' % err if err else ''),
                          {'kind': 'input-modified', 'function': name, 'arg': i, 'before': x[:3000], 'after': y[:3000]})
    if res is not None and check_alias:
        scribble(res)
        after2 = [snap(a) for a in args]
        for i, (x, y) in enumerate(zip(after, after2)):
            if x != y:
                ctx.violation('mutating the result of %s altered its argument #%d (shared objects)' % (name, i),
                              {'kind': 'result-alias', 'function': name, 'arg': i})
    return res, err


LIFTABLE = ('local', 'remote', 'base', 'either', 'custom', 'local_then_remote', 'remote_then_local')


def lift(base, ds):
    """the same decisions one level up: a decision on /a/b/k with diff d becomes a decision on /a/b with diff
    [patch k d]; decisions that end up on the same path then patch the same key (valid per the decision format)"""
    from nbdime.diff_format import op_patch
    from nbdime.merging.decisions import _sort_key
    out = []
    for d in ds:
        d2 = copy.deepcopy(d)
        p = tuple(d['common_path'])
        ok = d['action'] in LIFTABLE and len(p) >= 1
        if ok:
            try:
                parent = base
                for k in p[:-1]:
                    parent = parent[k]
                parent[p[-1]]
                ok = not isinstance(parent, str)
            except Exception:
                ok = False
        if ok:
            for side in ('local_diff', 'remote_diff', 'custom_diff'):
                if d2.get(side):
                    d2[side] = [op_patch(p[-1], d2[side])]
            d2['common_path'] = p[:-1]
        out.append(d2)
    return sorted(out, key=_sort_key, reverse=True)


def run(ctx):
    import nbdime, nbformat
    from nbdime.merging.generic import decide_merge
    from nbdime.merging.notebooks import merge_notebooks, decide_notebook_merge
    from nbdime.merging.decisions import apply_decisions
    from nbdime.diff_utils import to_diffentry_dicts
    import nbdime.prettyprint as pp
    ctx.cov['rule'] = ('every public function (diff, diff_notebooks, patch, patch_notebook, decide_merge, decide_notebook_merge, merge_notebooks, apply_decisions (also on the decisions lifted one path level), '
                       'pretty_print_notebook / _notebook_diff / _merge_decisions / _diff) on generated generic pairs, notebook pairs and notebook triples; typed '
                       'canonical snapshot of every argument before/after; then every list and dict of the result is mutated and the arguments are snapshotted again; '
                       'non-trivial = every call; distinct by (function, arguments)')
    vlib.audit(ctx, 'NbdimeProofs', THEOREMS)
    rng = ctx.rng
    n = 60 if ctx.tier == 'quick' else 1200
    for _ in range(n):
        a, b = gen_json.pair(rng)
        a, b = copy.deepcopy(a), copy.deepcopy(b)
        d, err = call(ctx, 'diff', nbdime.diff, [a, b], check_alias=False)
        d2, _ = call(ctx, 'diff', nbdime.diff, [copy.deepcopy(a), copy.deepcopy(b)])
        if d is not None and not isinstance(a, str):
            call(ctx, 'patch', nbdime.patch, [a, d])
    # string shapes: every base shape x edit shape, as a bare string document and as a cell source; the same diff object is
    # applied, printed and applied again
    for rep in range(1 if ctx.tier == 'quick' else 12):
        for label, sa, sb in gen_nb.string_shapes(rng, gen_nb.CODE_LINES if rep % 2 == 0 else gen_nb.MD_LINES):
            ctx.count('string-shape:' + label.split('/')[0])
            d, err = call(ctx, 'diff', nbdime.diff, [sa, sb], check_alias=False)
            if d is not None:
                r1, _ = call(ctx, 'patch', nbdime.patch, [sa, d], check_alias=False)
                r2, _ = call(ctx, 'patch', nbdime.patch, [sa, d], check_alias=False)
                if r1 != r2:
                    ctx.violation('patching the same string with the same diff object twice gives different results',
                                  {'kind': 'recompute', 'function': 'patch', 'a': sa, 'b': sb})
            cell = lambda src: {'cell_type': 'code', 'id': 'c1', 'metadata': {}, 'execution_count': None, 'outputs': [], 'source': src}
            na = nbformat.from_dict({'nbformat': 4, 'nbformat_minor': 5, 'metadata': {}, 'cells': [cell('x = 0\n'), cell(sa)]})
            nb_ = nbformat.from_dict({'nbformat': 4, 'nbformat_minor': 5, 'metadata': {}, 'cells': [cell('x = 0\n'), cell(sb)]})
            d, err = call(ctx, 'diff_notebooks', nbdime.diff_notebooks, [na, nb_], check_alias=False)
            if d is not None:
                cfg = pp.PrettyPrintConfig(out=io.StringIO(), use_color=False, use_git=rep % 2 == 1, use_diff=False)
                call(ctx, 'pretty_print_notebook_diff', lambda x, y: pp.pretty_print_notebook_diff('a', 'b', x, y, cfg), [na, d], check_alias=False)
                r1, _ = call(ctx, 'patch_notebook', nbdime.patch_notebook, [na, d], check_alias=False)
                r2, _ = call(ctx, 'patch_notebook', nbdime.patch_notebook, [na, d], check_alias=False)
                call(ctx, 'patch_notebook', nbdime.patch_notebook, [na, d])
                if snap(r1) != snap(r2) and r1 is not None and r2 is not None:
                    ctx.violation('patching the same notebook with the same diff object twice gives different results',
                                  {'kind': 'recompute', 'function': 'patch_notebook', 'a': sa, 'b': sb})
    for t in range(n):
        a, b, kinds = gen_nb.pair(rng)
        na, nb_ = nbformat.from_dict(copy.deepcopy(a)), nbformat.from_dict(copy.deepcopy(b))
        d, err = call(ctx, 'diff_notebooks', nbdime.diff_notebooks, [na, nb_], check_alias=False)
        call(ctx, 'diff_notebooks', nbdime.diff_notebooks, [nbformat.from_dict(copy.deepcopy(a)), nbformat.from_dict(copy.deepcopy(b))])
        if d is not None:
            call(ctx, 'patch_notebook', nbdime.patch_notebook, [na, d])
            for use_color in (True, False):
                cfg = pp.PrettyPrintConfig(out=io.StringIO(), use_color=use_color, use_git=t % 2 == 0, use_diff=t % 3 == 0)
                call(ctx, 'pretty_print_notebook_diff', lambda x, y: pp.pretty_print_notebook_diff('a', 'b', x, y, cfg), [na, d], check_alias=False)
            cfg = pp.PrettyPrintConfig(out=io.StringIO(), use_color=False)
            call(ctx, 'pretty_print_notebook', lambda x: pp.pretty_print_notebook(x, cfg), [na], check_alias=False)
    scen = sorted(set(gen_nb.SCENARIOS))
    n_sc = len(scen) * (2 if ctx.tier == 'quick' else 30)
    for t in range(n + n_sc):
        # random triples, then every conflict scenario in rotation under the default (inline) and the mergetool strategy
        if t < n:
            b, l, r, kinds = gen_nb.any_triple(rng)
            args = rng.choice([mergelib.Args('inline'), mergelib.Args('mergetool'), rng.choice(mergelib.all_combos())])
        else:
            b, l, r, kinds = gen_nb.triple_scenario(rng, first=scen[(t - n) % len(scen)])
            args = mergelib.Args('inline') if ((t - n) // len(scen)) % 3 != 2 else mergelib.Args('mergetool')
            ctx.count('scenario:' + kinds[0])
        nb_, nl, nr = (nbformat.from_dict(copy.deepcopy(x)) for x in (b, l, r))
        ds, err = call(ctx, 'decide_notebook_merge', lambda x, y, z: decide_notebook_merge(x, y, z, args), [nb_, nl, nr], check_alias=False)
        call(ctx, 'merge_notebooks', lambda x, y, z: merge_notebooks(x, y, z, args), [nb_, nl, nr])
        if ds is not None:
            call(ctx, 'apply_decisions', apply_decisions, [nb_, ds])
            lds = lift(nb_, ds)
            before_l = snap(lds)
            r1, e1 = call(ctx, 'apply_decisions(lifted)', apply_decisions, [nb_, lds], check_alias=False)
            if snap(lds) != before_l:
                continue          # already reported by call(); re-applying a list that grows on every call can exhaust memory
            r2, e2 = call(ctx, 'apply_decisions(lifted)', apply_decisions, [nb_, lds], check_alias=False)
            call(ctx, 'apply_decisions(lifted)', apply_decisions, [nb_, lds])
            known = mergelib.known_ids(b, l, r)
            if (e1 is None) != (e2 is None) or (r1 is not None and r2 is not None and
                                                snap(mergelib.mask_new_ids(plain(r1), known)) != snap(mergelib.mask_new_ids(plain(r2), known))):
                ctx.violation('applying the same decision list to the same base twice gives different results (%s / %s)' % (e1, e2),
                              {'kind': 'recompute', 'function': 'apply_decisions', 'base': enc(b), 'decisions': json.dumps(lds, default=list)[:6000]})
            cfg = pp.PrettyPrintConfig(out=io.StringIO(), use_color=False)
            call(ctx, 'pretty_print_merge_decisions', lambda x, y: pp.pretty_print_merge_decisions(x, y, cfg), [nb_, ds], check_alias=False)
        if t % 3 == 0:
            gb, gl = gen_json.pair(rng)
            gr = gen_json.mutate(rng, gb)
            if not isinstance(gb, str):
                gds, _ = call(ctx, 'decide_merge', decide_merge, [copy.deepcopy(gb), copy.deepcopy(gl), copy.deepcopy(gr)], check_alias=False)
    ctx.sample({'functions': sorted(k[3:] for k in ctx.cov['distribution'] if k.startswith('fn:'))})


def replay(path):
    print(json.dumps(json.load(open(path))['data'])[:1500])
    return 1
