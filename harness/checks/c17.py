"""C17 diffing git revisions examines exactly the notebooks git reports as changed.
Model: NbdimeModel/GitFiles.lean (+ Properties/C17.lean). Tie: repositories built by random
histories; changed_notebooks is run (own interpreter, from the root or a subdirectory, with and
without path filters) and compared with `git diff --name-status -M -z` / `git show` and with the
model fed the same entry list."""
import concurrent.futures, json, os, shutil, subprocess, sys, tempfile
import vlib

THEOREMS = ['Nbdime.C17_cwd', 'Nbdime.C17_exact', 'Nbdime.C17_skip', 'Nbdime.C17_unrepaired_pushd_refuted']
WORKER = os.path.join(vlib.VERIF, 'harness', 'c17_worker.py')
DIRS = ['', 'sub', 'sub/deep', 'other']
NAMES = ['a.ipynb', 'b.ipynb', 'c.ipynb', 'd.ipynb', 'a.ipynb', 'b.ipynb', 'notes.txt', 'script.py', 'data.ipynb.bak']


def nbtext(tag):
    return json.dumps({'cells': [{'cell_type': 'markdown', 'metadata': {}, 'source': tag}], 'metadata': {}, 'nbformat': 4, 'nbformat_minor': 4}, indent=1) + '\n'


class Repo:
    def __init__(self):
        self.td = tempfile.mkdtemp(prefix='verif-c17-')
        self.root = os.path.join(self.td, 'r')
        os.makedirs(self.root)
        self.env = dict(os.environ, HOME=self.td, GIT_CONFIG_NOSYSTEM='1', GIT_AUTHOR_NAME='v', GIT_AUTHOR_EMAIL='v@v', GIT_COMMITTER_NAME='v',
                        GIT_COMMITTER_EMAIL='v@v', PYTHONPATH=vlib.REPO)
        self.git('init', '-q')
        self.git('config', 'core.autocrlf', 'false')
        self.n = 0

    def git(self, *a, check=True):
        return subprocess.run(['git'] + list(a), cwd=self.root, env=self.env, stdout=subprocess.PIPE, stderr=subprocess.PIPE, check=check)

    def files(self):
        out = []
        for d, _, fs in os.walk(self.root):
            if '.git' in d.split(os.sep):
                continue
            for f in fs:
                out.append(os.path.relpath(os.path.join(d, f), self.root))
        return sorted(out)

    def mutate(self, rng, k):
        ops = []
        for _ in range(k):
            self.n += 1
            existing = self.files()
            r = rng.random()
            if r < 0.4 or not existing:
                p = os.path.join(rng.choice(DIRS), rng.choice(NAMES))
                os.makedirs(os.path.dirname(os.path.join(self.root, p)) or self.root, exist_ok=True)
                open(os.path.join(self.root, p), 'w').write(nbtext('v%d %s' % (self.n, p)) if p.endswith('.ipynb') else 'text %d\n' % self.n)
                ops.append('write ' + p)
            elif r < 0.6:
                p = rng.choice(existing)
                os.remove(os.path.join(self.root, p))
                ops.append('rm ' + p)
            elif r < 0.8:
                p = rng.choice(existing)
                q = os.path.join(rng.choice(DIRS), rng.choice(NAMES))
                if not os.path.exists(os.path.join(self.root, q)):
                    os.makedirs(os.path.dirname(os.path.join(self.root, q)) or self.root, exist_ok=True)
                    os.rename(os.path.join(self.root, p), os.path.join(self.root, q))
                    ops.append('mv %s %s' % (p, q))
            else:
                p = rng.choice(existing)
                with open(os.path.join(self.root, p), 'a') as f:
                    f.write(' \n')
                if p.endswith('.ipynb'):
                    open(os.path.join(self.root, p), 'w').write(nbtext('edit%d %s' % (self.n, p)))
                ops.append('edit ' + p)
        return ops

    def commit(self):
        self.git('add', '-A')
        self.git('commit', '-q', '--allow-empty', '-m', 'c%d' % self.n)

    def close(self):
        shutil.rmtree(self.td, ignore_errors=True)


def build_repo(rng):
    r = Repo()
    log = []
    for _ in range(rng.randrange(2, 5)):
        log.append(r.mutate(rng, rng.randrange(2, 8)))
        r.commit()
    log.append(['staged:'] + r.mutate(rng, rng.randrange(0, 4)))
    r.git('add', '-A')
    log.append(['unstaged:'] + r.mutate(rng, rng.randrange(1, 6)))
    for d in DIRS:
        os.makedirs(os.path.join(r.root, d), exist_ok=True)
    return r, log


def name_status(repo, base, remote, paths):
    args = ['diff', '--name-status', '-M', '-z', '--no-ext-diff']
    if base == 'INDEX':
        assert remote == 'WORKTREE'
    elif remote == 'INDEX':
        args += ['--cached', base]
    elif remote == 'WORKTREE':
        args += [base]
    else:
        args += [base, remote]
    if paths:
        args += ['--'] + paths
    out = repo.git(*args).stdout.decode('utf8', 'replace').split('\0')
    entries, i = [], 0
    while i < len(out) and out[i]:
        st = out[i]
        if st[0] in 'RC':
            entries.append((st[0], out[i + 1], out[i + 2]))
            i += 3
        else:
            entries.append((st[0], out[i + 1], out[i + 1]))
            i += 2
    return entries


def content(repo, ref, path):
    """None when absent on that side"""
    if ref == 'WORKTREE':
        p = os.path.join(repo.root, path)
        return open(p, encoding='utf8').read() if os.path.isfile(p) else None
    spec = (':' if ref == 'INDEX' else ref + ':') + path
    r = repo.git('show', spec, check=False)
    return r.stdout.decode('utf8') if r.returncode == 0 else None


def expected(repo, base, remote, paths_from_root):
    pairs, entries = [], []
    for st, a, b in name_status(repo, base, remote, paths_from_root):
        ca = None if st == 'A' else content(repo, base, a)
        cb = None if st == 'D' else content(repo, remote, b)
        entries.append({'a': a.split('/'), 'b': b.split('/'), 'ab': ca, 'bb': cb, 'status': st})
        if a.endswith('.ipynb') and b.endswith('.ipynb'):
            pairs.append(['missing' if ca is None else ca, 'missing' if cb is None else cb])
    return pairs, entries


def run_query(repo, cwd_rel, base, remote, paths):
    job = {'cwd': os.path.join(repo.root, cwd_rel), 'base': base, 'remote': remote, 'paths': paths}
    p = subprocess.run([sys.executable, WORKER], input=json.dumps(job).encode(), env=repo.env, stdout=subprocess.PIPE, stderr=subprocess.PIPE, timeout=300)
    if p.returncode != 0:
        raise vlib.Infra('c17 worker failed: ' + p.stderr.decode()[-600:])
    return json.loads(p.stdout.decode())


def ref_arg(r):
    return 'index' if r == 'INDEX' else 'worktree' if r == 'WORKTREE' else ['commit', r]


def check_repo(ctx, rng, nqueries):
    repo, log = build_repo(rng)
    reqs, items = [], []
    try:
        ncommits = int(repo.git('rev-list', '--count', 'HEAD').stdout)
        commits = ['HEAD'] + ['HEAD~%d' % i for i in range(1, ncommits)]
        qs = []
        for _ in range(nqueries):
            kind = rng.choice(['cc', 'ci', 'cw', 'cw', 'iw', 'iw'])
            base, remote = {'cc': (rng.choice(commits), rng.choice(commits)), 'ci': (rng.choice(commits), 'INDEX'),
                            'cw': (rng.choice(commits), 'WORKTREE'), 'iw': ('INDEX', 'WORKTREE')}[kind]
            cwd_rel = rng.choice(DIRS + ['sub/deep', 'sub'])
            paths = None
            if rng.random() < 0.5:
                # filters relative to the invocation directory, preferably hitting something that changed
                changed = [e[2] for e in name_status(repo, base, remote, None)]
                inside = [os.path.relpath(c, cwd_rel or '.') for c in changed if not cwd_rel or c.startswith(cwd_rel + '/')]
                cands = ['.'] + inside + [os.path.dirname(c) or '.' for c in inside]
                paths = [rng.choice(cands)] if rng.random() < 0.8 else ['a.ipynb']
            qs.append((kind, base, remote, cwd_rel, paths))
        with concurrent.futures.ThreadPoolExecutor(max_workers=8) as ex:
            outs = list(ex.map(lambda q: run_query(repo, q[3], q[1], q[2], q[4]), qs))
        disk = [[f.split('/'), open(os.path.join(repo.root, f), encoding='utf8', errors='replace').read()] for f in repo.files()]
        for (kind, base, remote, cwd_rel, paths), out in zip(qs, outs):
            popped = [c for c in cwd_rel.split('/') if c]
            from_root = [os.path.normpath(os.path.join(cwd_rel, p)) for p in paths] if paths else None
            exp_pairs, entries = expected(repo, base, remote, from_root)
            if remote == 'WORKTREE' and any(e['status'] == 'D' and os.path.exists(os.path.join(repo.root, *e['b'])) for e in entries):
                # an untracked file sits at a path git reports as deleted: which content is 'the working tree side' is
                # not defined by the property; such states are counted and skipped
                ctx.count('skipped:untracked-file-at-deleted-path')
                continue
            data = {'log': log, 'kind': kind, 'base': base, 'remote': remote, 'cwd': cwd_rel, 'paths': paths,
                    'entries': [{k: v for k, v in e.items() if k in ('a', 'b', 'status')} for e in entries]}
            ctx.count('refs:' + kind)
            ctx.count('cwd:' + (cwd_rel or '<root>'))
            ctx.count('paths:' + ('filter' if paths else 'none'))
            ctx.case(json.dumps(data, sort_keys=True), len(exp_pairs) >= 1)
            if exp_pairs:
                ctx.sample({'refs': [base, remote], 'cwd': cwd_rel, 'paths': paths, 'git_reports': [[e['status'], '/'.join(e['a']), '/'.join(e['b'])] for e in entries]}, limit=3)
            got = [[x if x == 'missing' else x[2] for x in pr] for pr in out['pairs']]
            if out['error']:
                ctx.violation('changed_notebooks raised %s' % out['error'], dict(data, kind_='raises'))
            elif got != exp_pairs:
                ctx.violation('changed_notebooks (%s..%s from %r, paths %r) examined %d pair(s) %s; git reports %d changed notebook(s) %s'
                              % (base, remote, cwd_rel, paths, len(got), [[len(x) if x != 'missing' else x for x in p] for p in got][:4], len(exp_pairs),
                                 [[e['status'], '/'.join(e['b'])] for e in entries if e['a'][-1].endswith('.ipynb') and e['b'][-1].endswith('.ipynb')][:4]),
                              dict(data, kind_='wrong-pairs', got=out['pairs'], want=exp_pairs))
            moved = [d for d in out.get('cwd_during', []) if os.path.realpath(d) != os.path.realpath(out['cwd_before'])]
            if moved:
                ctx.violation('working directory is %s instead of %s while the caller consumes the changed notebooks' % (moved[0], out['cwd_before']), dict(data, kind_='cwd-moved-during'))
            if os.path.realpath(out['cwd_after']) != os.path.realpath(out['cwd_before']):
                ctx.violation('working directory changed from %s to %s' % (out['cwd_before'], out['cwd_after']), dict(data, kind_='cwd-moved'))
            # model on the same entry list
            reqs.append({'cmd': 'gitfiles', 'cwd': ['r'] + popped, 'repoDir': ['..'] * len(popped) or ['.'],
                         'files': [[['r'] + p, c] for p, c in disk], 'base': ref_arg(base), 'remote': ref_arg(remote),
                         'entries': [{'a': e['a'], 'b': e['b'], 'ab': e['ab'], 'bb': e['bb']} for e in entries]})
            items.append((data, out))
    finally:
        repo.close()
    return reqs, items


def run(ctx):
    ctx.cov['rule'] = ('repositories from random histories (write/edit/delete/rename notebook and non-notebook files in nested directories, '
                       'staged and unstaged changes) x ref pairs (commit/commit, commit/index, commit/worktree, index/worktree) x invocation '
                       'directory (root or subdirectory) x optional path filter; non-trivial = git reports at least one changed notebook; '
                       'distinct by (history, query)')
    vlib.audit(ctx, 'NbdimeProofs', THEOREMS)
    rng = ctx.rng
    nrepo, nq = (14, 6) if ctx.tier == 'quick' else (300, 12)
    all_reqs, all_items = [], []
    for _ in range(nrepo):
        reqs, items = check_repo(ctx, rng, nq)
        all_reqs += reqs
        all_items += items
    mism = []
    for (data, out), m in zip(all_items, vlib.Driver().run(all_reqs)):
        ctx.cov['traces_validated_against_impl'] += 1
        mp = [[x if x == 'missing' else x[-1] for x in pr] for pr in m['ok']['pairs']]
        ip = [[x if x == 'missing' else x[2] for x in pr] for pr in out['pairs']]
        ml = [[None if x == 'missing' or x[0] == 'file' else x[1] for x in pr] for pr in m['ok']['pairs']]
        il = [[None if x == 'missing' or not x[1].endswith(')') else x[1] for x in pr] for pr in out['pairs']]
        moved = m['ok']['cwd'] != ['r'] + [c for c in data['cwd'].split('/') if c]
        if mp != ip or moved or (ml != il and not out['error']):
            mism.append(dict(data, impl=out['pairs'], model=m['ok']))
    ctx.cov['correspondence_mismatches'] = len(mism)
    if mism and not ctx.violations:
        ctx.violation('correspondence GitFiles model <-> changed_notebooks broken (%d); first: %s' % (len(mism), json.dumps(mism[0])[:400]),
                      {'kind': 'correspondence', 'stream': 'C17 gitfiles', 'first': mism[0]}, found=False, classify=False)


def replay(path):
    print('C17 replays are histories of a scratch repository; re-run ./check C17 quick with the same VERIF_SEED. Data:')
    print(json.dumps(json.load(open(path))['data'])[:1500])
    return 1
