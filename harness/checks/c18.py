"""C18 git integration set-up is idempotent and never touches foreign settings.
Model: NbdimeModel/GitCfg.lean (+ theorems in Properties/C18.lean). Tie: (a) the literal
`git config` writes of the four enable functions are extracted from /repo by an AST walk and
compared with the model's write tables in a generated Lean `decide` obligation; (b) command
sequences are executed through the real entry points against real git in a scratch HOME and
the resulting configuration / attributes file is compared with the model after every command."""
import ast, io, json, os, re, shutil, subprocess, sys, tempfile
import vlib

THEOREMS = ['Nbdime.C18_idem_cfg', 'Nbdime.C18_idem_attrs', 'Nbdime.C18_own', 'Nbdime.C18_own_seq',
            'Nbdime.C18_foreign_mergetool', 'Nbdime.C18_foreign_guitool', 'Nbdime.C18_foreign_seq',
            'Nbdime.C18_disabled', 'Nbdime.C18_attrs_kept']
DIFFLINE = '\n*.ipynb\tdiff=jupyternotebook\n'
MERGELINE = '\n*.ipynb\tmerge=jupyternotebook\n'
OWN = ["diff.jupyternotebook.command", "merge.jupyternotebook.driver", "merge.jupyternotebook.name",
       "difftool.nbdime.cmd", "difftool.prompt", "mergetool.nbdime.cmd", "mergetool.prompt", "diff.guitool", "merge.tool"]
CMDS = ['enableDiffDriver', 'disableDiffDriver', 'enableMergeDriver', 'disableMergeDriver',
        ['enableDiffTool', False], ['enableDiffTool', True], 'disableDiffTool',
        ['enableMergeTool', False], ['enableMergeTool', True], 'disableMergeTool', 'enableAll', 'disableAll']


def is_enable(c):
    return (c if isinstance(c, str) else c[0]).startswith('enable')


# ----------------------------------------------------------------- extraction (AST)
def extract_writes():
    """for each module: the constant [key, value] lists passed to check_call(cmd + [...]) in enable()"""
    out = {}
    for mod in ('diffdriver', 'mergedriver', 'difftool', 'mergetool'):
        src = open(os.path.join(vlib.REPO, 'nbdime', 'vcs', 'git', mod + '.py')).read()
        tree = ast.parse(src)
        for fn in tree.body:
            if isinstance(fn, ast.FunctionDef) and fn.name == 'enable':
                writes = []

                def visit(node, guarded):
                    for ch in ast.iter_child_nodes(node):
                        g = guarded
                        if isinstance(node, ast.If) and ch in node.body and isinstance(node.test, ast.Name) and node.test.id == 'set_default':
                            g = True
                        if isinstance(ch, ast.Call) and getattr(ch.func, 'id', '') == 'check_call' and ch.args and isinstance(ch.args[0], ast.BinOp):
                            rhs = ch.args[0].right
                            if isinstance(rhs, ast.List) and all(isinstance(e, ast.Constant) for e in rhs.elts):
                                vals = [e.value for e in rhs.elts]
                                if len(vals) == 2:
                                    writes.append((vals[0], vals[1], g))
                        visit(ch, g)
                visit(fn, False)
                out[mod] = writes
    return out


def lean_str(s):
    return json.dumps(s)


def lean_writes_obligation(w):
    def lst(items):
        return '[' + ', '.join('(%s, %s)' % (lean_str(k), lean_str(v)) for k, v in items) + ']'
    def variant(mod, sd):
        return [(k, v) for k, v, g in w[mod] if sd or not g]
    lines = ['import NbdimeProofs', 'open Nbdime Nbdime.GitCfg',
             '-- git config writes extracted from nbdime/vcs/git/*.py (enable functions) of the current tree',
             'example : enableWrites .enableDiffDriver = %s := by decide' % lst(variant('diffdriver', False)),
             'example : enableWrites .enableMergeDriver = %s := by decide' % lst(variant('mergedriver', False)),
             'example : enableWrites (.enableDiffTool false) = %s := by decide' % lst(variant('difftool', False)),
             'example : enableWrites (.enableDiffTool true) = %s := by decide' % lst(variant('difftool', True)),
             'example : enableWrites (.enableMergeTool false) = %s := by decide' % lst(variant('mergetool', False)),
             'example : enableWrites (.enableMergeTool true) = %s := by decide' % lst(variant('mergetool', True)),
             'example : enableWrites .enableAll = %s := by decide' % lst(variant('diffdriver', False) + variant('mergedriver', False) + variant('difftool', False) + variant('mergetool', False)),
             'example : (enableWrites .enableAll).all (fun kv => ownKeys.contains kv.1) = true := by decide']
    return '\n'.join(lines) + '\n', 8


# ----------------------------------------------------------------- real git world
class World:
    def __init__(self, scope):
        self.scope = scope          # None (repository) or 'global'
        self.td = tempfile.mkdtemp(prefix='verif-c18-')
        self.home = os.path.join(self.td, 'home')
        self.repo = os.path.join(self.td, 'repo')
        os.makedirs(self.home)
        os.makedirs(self.repo)
        self.env = dict(os.environ, HOME=self.home, GIT_CONFIG_NOSYSTEM='1', PYTHONPATH=vlib.REPO + os.pathsep + os.path.join(vlib.VERIF, 'harness', 'stubs'),
                        JUPYTER_CONFIG_DIR=os.path.join(self.td, 'jcfg'))
        self.env.pop('XDG_CONFIG_HOME', None)
        self.env.pop('GIT_CONFIG_GLOBAL', None)
        self.git('init', '-q')
        if scope == 'global':
            # git needs the file to exist for --global writes to go to ~/.gitconfig
            open(os.path.join(self.home, '.gitconfig'), 'a').close()

    def git(self, *args, check=True):
        return subprocess.run(['git'] + list(args), cwd=self.repo, env=self.env, stdout=subprocess.PIPE, stderr=subprocess.PIPE, check=check)

    def scope_args(self):
        return ['--global'] if self.scope == 'global' else ['--local']

    def attrs_path(self):
        return os.path.join(self.home, '.config', 'git', 'attributes') if self.scope == 'global' else os.path.join(self.repo, '.gitattributes')

    def other_args(self):
        return ['--local'] if self.scope == 'global' else ['--global']

    def read_other(self):
        r = self.git('config', *self.other_args(), '--list', '-z', check=False)
        return sorted(x for x in r.stdout.decode('utf8', 'replace').split('\0') if x)

    def set_initial(self, cfg, attrs, other=()):
        if other and self.scope != 'global':
            open(os.path.join(self.home, '.gitconfig'), 'a').close()
        for k, v in other:
            self.git('config', *self.other_args(), k, v)
        for k, v in cfg:
            self.git('config', *self.scope_args(), k, v)
        if attrs is not None:
            p = self.attrs_path()
            os.makedirs(os.path.dirname(p), exist_ok=True)
            with io.open(p, 'w', encoding='utf8', newline='') as f:
                f.write(attrs)

    def read_cfg(self):
        r = self.git('config', *self.scope_args(), '--list', '-z', check=False)
        out = {}
        for item in r.stdout.decode('utf8', 'replace').split('\0'):
            if item:
                k, _, v = item.partition('\n')
                out.setdefault(k, []).append(v)
        return out

    def read_attrs(self):
        p = self.attrs_path()
        if not os.path.exists(p):
            return None
        with io.open(p, encoding='utf8', newline='') as f:
            return f.read()

    def check_attr(self):
        r = self.git('check-attr', 'diff', 'merge', '--', 'x.ipynb', check=False)
        return r.stdout.decode()

    def run_cmd(self, c):
        """through the real entry points (argument parsing included), one interpreter per command"""
        name = c if isinstance(c, str) else c[0]
        sd = [] if isinstance(c, str) or not c[1] else ['--set-default']
        sc = ['--global'] if self.scope == 'global' else []
        flag = '--enable' if name.startswith('enable') else '--disable'
        if name.endswith('All'):
            argv = ['-m', 'nbdime', 'config-git', flag] + sc
        else:
            mod = {'DiffDriver': 'diffdriver', 'MergeDriver': 'mergedriver', 'DiffTool': 'difftool', 'MergeTool': 'mergetool'}[name.replace('enable', '').replace('disable', '')]
            argv = ['-m', 'nbdime.vcs.git.' + mod, 'config', flag] + sc + sd
        r = subprocess.run([sys.executable] + argv, cwd=self.repo, env=self.env, stdout=subprocess.PIPE, stderr=subprocess.PIPE)
        return r.returncode, r.stderr.decode()[-400:]

    def close(self):
        shutil.rmtree(self.td, ignore_errors=True)


def chunks_of(text):
    """attributes file content -> model chunks (exact nbdime lines vs foreign text with marker flags)"""
    if text is None:
        return None
    out = []
    parts = re.split('(' + re.escape(DIFFLINE) + '|' + re.escape(MERGELINE) + ')', text)
    for p in parts:
        if p == DIFFLINE:
            out.append('diffLine')
        elif p == MERGELINE:
            out.append('mergeLine')
        elif p:
            out.append(['foreign', p, 'diff=jupyternotebook' in p, 'merge=jupyternotebook' in p])
    return out


def text_of(chunks):
    if chunks is None:
        return None
    return ''.join(DIFFLINE if c == 'diffLine' else MERGELINE if c == 'mergeLine' else c[1] for c in chunks)


def gen_initial(rng):
    cfg = [('user.name', 'verif'), ('core.autocrlf', 'false')]
    mt = rng.choice([None, 'nbdime', 'meld'])
    gt = rng.choice([None, 'nbdime', 'kdiff3'])
    if mt:
        cfg.append(('merge.tool', mt))
    if gt:
        cfg.append(('diff.guitool', gt))
    for k in ('difftool.prompt', 'mergetool.prompt'):
        v = rng.choice([None, 'true', 'false'])
        if v:
            cfg.append((k, v))
    if rng.random() < 0.2:
        cfg.append(('diff.jupyternotebook.command', 'git-nbdiffdriver diff'))
    if rng.random() < 0.15:
        cfg.append(('merge.jupyternotebook.extra', 'kept-in-section'))
    if rng.random() < 0.3:
        cfg.append(('merge.conflictstyle', 'diff3'))
    attrs = rng.choice([None, None, '*.txt text\n*.png binary\n', '*.txt text', DIFFLINE, '*.md text\n' + DIFFLINE + MERGELINE,
                        '*.ipynb diff=jupyternotebook\n', '# notebooks\n*.ipynb merge=jupyternotebook eol=lf\n'])
    return cfg, attrs


def check_sequence(ctx, drv_reqs, scope, cfg0, attrs0, cmds, other=()):
    """run on real git, return observation list; the model request is appended to drv_reqs"""
    w = World(scope)
    obs = []
    try:
        w.set_initial(cfg0, attrs0, other)
        start = (w.read_cfg(), w.read_attrs(), w.read_other())
        for c in cmds:
            rc, err = w.run_cmd(c)
            obs.append({'rc': rc, 'err': err if rc else '', 'cfg': w.read_cfg(), 'attrs': w.read_attrs(), 'check_attr': w.check_attr(), 'other': w.read_other()})
    finally:
        w.close()
    drv_reqs.append({'cmd': 'gitcfg', 'cfg': [[k, v[0]] for k, v in start[0].items()], 'attrs': chunks_of(start[1]), 'cmds': cmds})
    return start, obs


def evaluate(ctx, scope, cfg0, attrs0, cmds, start, obs, model, other=()):
    data = {'scope': scope, 'cfg0': cfg0, 'attrs0': attrs0, 'cmds': cmds, 'other': [list(x) for x in other]}
    prev_cfg, prev_attrs, other0 = start
    mism = []
    for i, (c, o, m) in enumerate(zip(cmds, obs, model)):
        d = dict(data, index=i)
        ctx.count('cmd:' + (c if isinstance(c, str) else '%s%s' % (c[0], '+default' if c[1] else '')))
        if o['rc'] != 0:
            ctx.violation('command %s exited %d: %s' % (c, o['rc'], o['err'][-200:]), dict(d, kind='cmd-fails'))
        if o.get('other', other0) != other0:
            ctx.violation('%s (scope %s) changed the configuration of the other scope: %r -> %r' % (c, scope or 'repository', other0, o['other']), dict(d, kind='other-scope'))
        # --- the property on the implementation ---
        for k in set(prev_cfg) | set(o['cfg']):
            if k not in OWN and not k.startswith(('diff.jupyternotebook.', 'merge.jupyternotebook.')) and prev_cfg.get(k) != o['cfg'].get(k):
                ctx.violation('%s changed foreign setting %s: %r -> %r' % (c, k, prev_cfg.get(k), o['cfg'].get(k)), dict(d, kind='foreign-key', key=k))
        for k, own in (('merge.tool', 'MergeTool'), ('diff.guitool', 'DiffTool')):
            before = prev_cfg.get(k)
            if before and before != ['nbdime'] and o['cfg'].get(k) != before and c != ['enable' + own, True]:
                ctx.violation('%s altered %s=%s which points at another tool (now %r)' % (c, k, before[0], o['cfg'].get(k)), dict(d, kind='foreign-tool', key=k))
        if prev_attrs is not None and (o['attrs'] is None or not o['attrs'].startswith(prev_attrs)):
            ctx.violation('%s did not keep the existing attributes content' % (c,), dict(d, kind='attrs-lost'))
        added = (o['attrs'] or '')[len(prev_attrs or ''):]
        if added not in ('', DIFFLINE, MERGELINE, DIFFLINE + MERGELINE):
            ctx.violation('%s added unexpected attributes content %r' % (c, added), dict(d, kind='attrs-extra'))
        if is_enable(c) and i > 0 and cmds[i - 1] == c and (o['cfg'], o['attrs']) != (prev_cfg, prev_attrs):
            ctx.violation('%s is not idempotent: second run changed the configuration' % (c,), dict(d, kind='not-idempotent'))
        if c == 'enableAll' or c == 'enableDiffDriver':
            if 'diff: jupyternotebook' not in o['check_attr'] and scope is None:
                ctx.violation('after %s git does not route notebooks to the diff driver: %s' % (c, o['check_attr']), dict(d, kind='not-routed'))
            if o['cfg'].get('diff.jupyternotebook.command') != ['git-nbdiffdriver diff']:
                ctx.violation('after %s the diff driver is not registered' % (c,), dict(d, kind='not-registered'))
        if c == 'enableAll' or c == 'enableMergeDriver':
            if not o['cfg'].get('merge.jupyternotebook.driver'):
                ctx.violation('after %s the merge driver is not registered' % (c,), dict(d, kind='not-registered'))
        if c == 'disableAll':
            left = [k for k in o['cfg'] if k.startswith(('diff.jupyternotebook.', 'merge.jupyternotebook.'))]
            if left:
                ctx.violation('after disable driver settings remain: %s' % left, dict(d, kind='driver-left'))
        # --- correspondence with the model ---
        mcfg = {k: [v] for k, v in m['cfg']}
        ctx.cov['traces_validated_against_impl'] += 1
        if mcfg != o['cfg'] or text_of(m['attrs']) != o['attrs']:
            mism.append(dict(d, impl={'cfg': o['cfg'], 'attrs': o['attrs']}, model={'cfg': mcfg, 'attrs': text_of(m['attrs'])}))
        prev_cfg, prev_attrs = o['cfg'], o['attrs']
    return mism


def run(ctx):
    ctx.cov['rule'] = ('initial git configuration (merge.tool / diff.guitool unset, nbdime or foreign; prompts; attributes file absent, '
                       'unrelated rules, already holding nbdime lines, foreign line with the marker) x repository or global scope x '
                       'sequences of enable/disable commands (combined and per driver/tool, with and without --set-default) run through '
                       'the real entry points against real git; non-trivial = sequence of >= 2 commands; distinct by (scope, initial state, sequence)')
    vlib.audit(ctx, 'NbdimeProofs', THEOREMS)
    # (a) extraction obligation
    table_note = None
    try:
        w = extract_writes()
        src, n = lean_writes_obligation(w)
        ok, out = vlib.lean_run(src, 'C18_Tables.lean')
        ctx.cov['obligations'] += n
        ctx.cov['extracted_writes'] = {k: [list(x) for x in v] for k, v in w.items()}
        if ok:
            ctx.cov['discharged'] += n
        else:
            table_note = out[-500:]
    except Exception as e:  # source no longer has the shape the extractor understands
        table_note = 'extractor failed: %r' % (e,)
    # (b) sequences against real git
    rng = ctx.rng
    import concurrent.futures
    nseq = 28 if ctx.tier == 'quick' else 400
    maxlen = 5 if ctx.tier == 'quick' else 9
    jobs = []
    cp = os.path.join(vlib.VERIF, 'corpus', 'C18.json')
    if os.path.exists(cp):
        jobs += [tuple(j) for j in json.load(open(cp))]
    for _ in range(nseq):
        scope = rng.choice([None, None, 'global'])
        cfg0, attrs0 = gen_initial(rng)
        n = rng.randrange(2, maxlen + 1)
        cmds = []
        while len(cmds) < n:
            c = rng.choice(CMDS)
            cmds.append(c)
            if is_enable(c) and rng.random() < 0.4:
                cmds.append(c)          # idempotence probe
        other = []
        if rng.random() < 0.45:
            # the other scope (global for a repository command, repository for a --global one) holds settings of its own
            other = [(k, v) for k, v in gen_initial(rng)[0] if k in ('merge.tool', 'diff.guitool', 'difftool.prompt', 'mergetool.prompt')]
            if rng.random() < 0.5:
                other = [(k, 'nbdime' if k in ('merge.tool', 'diff.guitool') else v) for k, v in other] or [('merge.tool', 'nbdime'), ('diff.guitool', 'nbdime')]
        jobs.append((scope, cfg0, attrs0, cmds[:maxlen + 1], other))
    reqs = [None] * len(jobs)

    def work(ix):
        scope, cfg0, attrs0, cmds = jobs[ix][:4]
        r = []
        res = check_sequence(ctx, r, scope, cfg0, attrs0, cmds, jobs[ix][4] if len(jobs[ix]) > 4 else ())
        reqs[ix] = r[0]
        return res
    with concurrent.futures.ThreadPoolExecutor(max_workers=14) as ex:
        results = list(ex.map(work, range(len(jobs))))
    models = vlib.Driver().run(reqs)
    mism = []
    for job, (start, obs), m in zip(jobs, results, models):
        scope, cfg0, attrs0, cmds = job[:4]
        other = job[4] if len(job) > 4 else ()
        ctx.case(json.dumps([scope, cfg0, attrs0, cmds, other]), len(cmds) >= 2)
        ctx.count('scope:%s' % scope)
        ctx.count('other-scope-populated' if other else 'other-scope-empty')
        ctx.sample({'scope': scope, 'initial_cfg': cfg0, 'attrs': attrs0, 'cmds': cmds}, limit=2)
        mism += evaluate(ctx, scope, cfg0, attrs0, cmds, start, obs, m['ok'], other)
    ctx.cov['correspondence_mismatches'] = len(mism)
    if table_note and not ctx.violations:
        ctx.violation('generated obligation (extracted git-config writes = model write tables) no longer checks: ' + table_note,
                      {'kind': 'obligation', 'theorem': 'gen/C18_Tables.lean', 'output': table_note}, found=False, classify=False)
    if mism and not ctx.violations:
        ctx.violation('correspondence GitCfg model <-> real git after nbdime commands broken (%d steps); first: %s' % (len(mism), json.dumps(mism[0])[:400]),
                      {'kind': 'correspondence', 'stream': 'C18 gitcfg', 'first': mism[0]}, found=False, classify=False)


def replay(path):
    data = json.load(open(path))['data']
    ctx = vlib.Ctx('C18', 'quick', 0)
    if 'cmds' in data:
        r = []
        other = [tuple(x) for x in data.get('other', [])]
        start, obs = check_sequence(ctx, r, data['scope'], [tuple(x) for x in data['cfg0']], data['attrs0'], data['cmds'], other)
        m = vlib.Driver().run(r)[0]
        evaluate(ctx, data['scope'], data['cfg0'], data['attrs0'], data['cmds'], start, obs, m['ok'], other)
    for what, p, found in ctx.violations:
        print('REPRODUCED:', what[:300])
    return 1 if ctx.violations else 0
