"""C16 terminal rendering of notebooks, diffs and decisions never fails.
Lean: NbdimeModel/PrettyCfg.lean models the renderer's ignore table (should_ignore_path) and the plain
line prefixes; tied by correspondence on generated paths x all 64 include subsets and by extraction of
col_const[False]. Search: the real printers on generated notebooks / diffs / decision lists under all
64 include subsets x colour x colour-words x external diff tool {git, diff, difflib}; CLI legs."""
import copy, io, json, os, re, subprocess, sys, tempfile, types
import vlib, gen_nb
from vlib import enc, dec, canon, plain
from checks import mergelib, c01, c14

THEOREMS = ['Nbdime.C16_include_all_shows_all', 'Nbdime.C16_sources', 'Nbdime.C16_nb_metadata', 'Nbdime.C16_plain_constants_no_esc']
ANSI = re.compile(r'\x1b\[')
CATS = c14.CATS
PATHS = ['/cells/*/source', '/cells/*/source/*', '/cells/*/attachments', '/cells/*/attachments/fig.png', '/cells/*/metadata', '/cells/*/metadata/tags',
         '/metadata', '/metadata/kernelspec/name', '/cells/*/id', '/cells/*/outputs', '/cells/*/outputs/*', '/cells/*/outputs/*/execution_count',
         '/cells/*/outputs/*/data', '/cells/*/execution_count', '/cells/*/cell_type', '/nbformat', '/nbformat_minor', '/cells', '/cells/*', '/other']


def no_esc(v):
    """inputs for the colour clause carry no escape characters of their own (tracebacks often do),
    so that every ANSI sequence in the output is the renderer's"""
    if isinstance(v, str):
        return v.replace('\x1b', '')
    if isinstance(v, dict):
        return {k: no_esc(x) for k, x in v.items()}
    if isinstance(v, list):
        return [no_esc(x) for x in v]
    return v


def include_ns(bits):
    return types.SimpleNamespace(**{c: not (bits >> i & 1) for i, c in enumerate(CATS)})


def make_cfg(bits, use_color, color_words, tool):
    import nbdime.prettyprint as pp
    use_git, use_diff = {'git': (True, True), 'diff': (False, True), 'difflib': (False, False)}[tool]
    return pp.PrettyPrintConfig(out=io.StringIO(), include=include_ns(bits), color_words=color_words, use_git=use_git, use_diff=use_diff, use_color=use_color)


def visible_change(d, ignored):
    """does the diff hold an entry outside every ignored category (leaf entries only)?"""
    for p, e in c14.op_paths(d):
        if e['op'] == 'patch':
            continue
        if c14.in_cat(ignored, p) is None:
            # inserted / removed whole cells or outputs are visible unless their container is ignored
            return True
    return False


def render(ctx, what, fn, cfg, data):
    try:
        fn(cfg)
        out = cfg.out.getvalue()
    except Exception as e:
        import traceback
        tb = traceback.extract_tb(e.__traceback__)
        where = ' < '.join('%s:%d' % (f.filename.split('/nbdime/')[-1], f.lineno) for f in reversed(tb[-3:]))
        ctx.violation('%s raised %s: %s @ %s' % (what, type(e).__name__, str(e)[:120], where), dict(data, kind='raises', what=what, msg=str(e)[:200]))
        return None
    if not cfg.use_color and ANSI.search(out):
        ctx.violation('%s emits ANSI escape codes although colour is disabled' % what, dict(data, kind='ansi', what=what, sample=out[max(0, ANSI.search(out).start() - 30):ANSI.search(out).start() + 30]))
    return out


@vlib.classifier('pygments-ansi')
def _cls_pyg(data, finding):
    return data.get('kind') == 'ansi' and data.get('what') == 'pretty_print_notebook'


def run(ctx):
    import nbdime, nbformat
    import nbdime.prettyprint as pp
    from nbdime.diff_utils import to_diffentry_dicts
    ctx.cov['rule'] = ('generated notebooks, notebook diffs and merge decision lists rendered under include subsets (all 64 in rotation) x colour on/off x colour-words '
                       'on/off x external tool {git, diff, difflib}; text includes base64 payloads, conflict markers, missing trailing newlines, non-ASCII; plus nbdiff / '
                       'nbshow CLI legs; non-trivial = non-empty diff / decision list; distinct by (input, configuration)')
    vlib.audit(ctx, 'NbdimeProofs', THEOREMS)
    # extraction: the plain constants
    consts = list(pp.col_const[False])
    ok, out = vlib.lean_run('import NbdimeProofs\nopen Nbdime Nbdime.Pretty\nexample : plainConstants = [%s] := by decide\n' % ', '.join(json.dumps(c) for c in consts), 'C16_Tables.lean')
    ctx.cov['obligations'] += 1
    note = None if ok else out[-300:]
    if ok:
        ctx.cov['discharged'] += 1
    # correspondence: should_ignore_path
    reqs, want = [], []
    for bits in range(64):
        cfg = make_cfg(bits, False, False, 'difflib')
        for p in PATHS:
            concrete = p.replace('*', '3')
            want.append(bool(cfg.should_ignore_path(concrete)))
            reqs.append({'cmd': 'shouldignore', 'path': p, 'include': [not (bits >> i & 1) for i in range(6)]})
    mism = [(r, w, m) for r, w, m in zip(reqs, want, vlib.Driver().run(reqs)) if m.get('ok') != w]
    ctx.cov['traces_validated_against_impl'] += len(reqs)
    ctx.cov['correspondence_mismatches'] = len(mism)
    rng = ctx.rng
    n = 48 if ctx.tier == 'quick' else 1200
    k = 0
    def render_decisions(k, triple):
        """pretty_print_merge_decisions on the decisions of one merge (mergetool or inline strategy)"""
        bb, l, rr, kinds = triple
        bb, l, rr = no_esc(bb), no_esc(l), no_esc(rr)
        res = mergelib.run_merge(bb, l, rr, rng.choice([mergelib.Args('mergetool'), mergelib.Args('inline')]))
        if res[0] != 'ok':
            return k
        from nbdime.merging.decisions import MergeDecision
        ds = [MergeDecision({kk: (to_diffentry_dicts(copy.deepcopy(v)) if kk.endswith('_diff') or kk == 'similar_insert' and v is not None else copy.deepcopy(v)) for kk, v in dd.items()}) for dd in res[2]]
        for dd in ds:
            dd['common_path'] = tuple(dd['common_path'])
        k += 1
        bits = (k * 11) % 64
        use_color, tool = bool(k % 2), ['git', 'diff', 'difflib'][k % 3]
        data = {'b': enc(bb), 'l': enc(l), 'r': enc(rr), 'use_color': use_color, 'tool': tool, 'ignored': [c for i, c in enumerate(CATS) if bits >> i & 1]}
        ctx.case('m' + canon(bb) + canon(l) + canon(rr) + str(bits), bool(ds))
        nbb = nbformat.from_dict(copy.deepcopy(bb))
        render(ctx, 'pretty_print_merge_decisions', lambda cfg: pp.pretty_print_merge_decisions(nbb, ds, cfg), make_cfg(bits, use_color, False, tool), data)
        return k

    # the last iterations: only decisions, from the scenario that puts character-level diffs on line paths (often line 0)
    n_line = 24 if ctx.tier == 'quick' else 400
    for t in range(n + n_line):
        if t >= n:
            a = b = None
        else:
            a, b, kinds = gen_nb.pair(rng)
        a, b = no_esc(a), no_esc(b)
        r, _ = c01.impl_diffnb(a, b)
        if r[0] != 'ok':
            continue
        d = to_diffentry_dicts(copy.deepcopy(r[1]))
        na = nbformat.from_dict(copy.deepcopy(a))
        for rep in range(2 if ctx.tier == 'quick' else 6):
            k += 1
            bits = (k * 7) % 64
            ignored = [c for i, c in enumerate(CATS) if bits >> i & 1]
            use_color, color_words, tool = bool(k % 2), bool((k // 2) % 2), ['git', 'diff', 'difflib'][k % 3]
            data = {'a': enc(a), 'b': enc(b), 'ignored': ignored, 'use_color': use_color, 'color_words': color_words, 'tool': tool}
            ctx.count('tool:' + tool)
            ctx.count('color:%s' % use_color)
            ctx.case('d' + canon(a) + canon(b) + json.dumps([bits, use_color, color_words, tool]), bool(r[1]))
            out = render(ctx, 'pretty_print_notebook_diff', lambda cfg: pp.pretty_print_notebook_diff('a.ipynb', 'b.ipynb', na, d, cfg), make_cfg(bits, use_color, color_words, tool), data)
            if out is None:
                continue
            if not r[1] and out:
                ctx.violation('an empty diff prints %r' % out[:80], dict(data, kind='empty-prints'))
            if r[1] and visible_change(r[1], ignored) and len(out.splitlines()) <= 3:
                ctx.violation('a diff touching a non-ignored category prints nothing beyond the header (ignoring %s)' % ignored, dict(data, kind='silent', diff=vlib.enc_diff(r[1])))
            if rep == 0:
                render(ctx, 'pretty_print_notebook', lambda cfg: pp.pretty_print_notebook(na, cfg), make_cfg(bits, use_color, color_words, tool), data)
        if t % 2 == 0:
            k = render_decisions(k, gen_nb.any_triple(rng))
    # decisions on line paths: character-level diffs inside one line (often line 0) next to line-level decisions
    for t in range(24 if ctx.tier == 'quick' else 400):
        k = render_decisions(k, gen_nb.triple_scenario(rng, first='same-inline-edit-plus-insert'))
        ctx.count('decisions on line paths')
    # every changed source line is printed (the finest reading of "prints something for every diff that touches a
    # non-ignored category"): one line removed / added / changed, among lines that look like diff syntax
    nasty = ['--- a', '-- comment', '++i;', '+++ x', '@@ -1 +1 @@', 'diff --git a/x b/x', 'index 123..456 100644', '< old', '> new', '---', '+++',
             '<<<<<<< local', '=======', '>>>>>>> remote', '\\ No newline at end of file']
    # first a systematic sweep (every renderer x every marker x removed / added / changed), then random mixtures
    plan = [(tool, mk, mode) for tool in ('git', 'diff', 'difflib') for mk in nasty for mode in ('remove', 'add', 'change')]
    for t in range(len(plan) + (30 if ctx.tier == 'quick' else 600)):
        lines = ['%s = %d' % (rng.choice('abcdefgh'), rng.randrange(100)) if rng.random() < 0.6 else rng.choice(nasty) + ' %d' % i for i in range(rng.randrange(2, 7))]
        planned = plan[t] if t < len(plan) else None
        captured = planned is None and t % 3 == 2
        if captured:
            # the text is itself captured diff output (`!git diff` over files without trailing newline): the same marker lines repeat
            lines = []
            for q in range(rng.randrange(2, 5)):
                lines += ['diff --git a/f%d b/f%d' % (q, q), '@@ -1 +1 @@', '-old %d' % q, '\\ No newline at end of file', '+new %d' % q, '\\ No newline at end of file'][:rng.choice([4, 6, 6])]
            uniq = [j for j, x in enumerate(lines) if lines.count(x) == 1]
            i = rng.choice(uniq)
        else:
            i = rng.randrange(len(lines))
        new = rng.choice(nasty) if rng.random() < 0.7 else 'value = %d' % rng.randrange(1000)
        mode = rng.choice(['remove', 'add', 'change'])
        if planned is not None:
            mode, new = planned[2], planned[1]
            lines[i] = planned[1] + ' %d' % i
        if mode == 'remove':
            la, lb, removed, added = lines, lines[:i] + lines[i + 1:], [lines[i]], []
        elif mode == 'add':
            la, lb, removed, added = lines, lines[:i] + [new + ' new'] + lines[i:], [], [new + ' new']
        else:
            la, lb, removed, added = lines, lines[:i] + [new + ' chg'] + lines[i + 1:], [lines[i]], [new + ' chg']
        if lines.count(lines[i]) > 1:
            continue
        a = {'nbformat': 4, 'nbformat_minor': 5, 'metadata': {}, 'cells': [{'cell_type': 'code', 'id': 'c1', 'metadata': {}, 'execution_count': None, 'outputs': [],
                                                                               'source': ''.join(x + '\n' for x in la)}]}
        b = copy.deepcopy(a)
        b['cells'][0]['source'] = ''.join(x + '\n' for x in lb)
        if captured and rng.random() < 0.6:
            # neither text ends with a newline
            a['cells'][0]['source'] = a['cells'][0]['source'][:-1]
            b['cells'][0]['source'] = b['cells'][0]['source'][:-1]
        if captured and rng.random() < 0.5:
            # ... or it sits in a stream output
            for nb in (a, b):
                nb['cells'][0]['outputs'] = [{'output_type': 'stream', 'name': 'stdout', 'text': nb['cells'][0]['source']}]
                nb['cells'][0]['source'] = '!git diff'
            removed, added = [], []
        r, _ = c01.impl_diffnb(a, b)
        if r[0] != 'ok':
            continue
        d = to_diffentry_dicts(copy.deepcopy(r[1]))
        tool = planned[0] if planned is not None else ['git', 'diff', 'difflib'][(t // 3) % 3]
        data = {'a': enc(a), 'b': enc(b), 'ignored': [], 'use_color': False, 'color_words': False, 'tool': tool}
        ctx.count('changed-line:' + tool + (':captured-diff-text' if captured else '') + (':sweep' if planned is not None else ''))
        ctx.case('L' + canon(a) + canon(b) + tool, True)
        out = render(ctx, 'pretty_print_notebook_diff', lambda cfg: pp.pretty_print_notebook_diff('a.ipynb', 'b.ipynb', nbformat.from_dict(copy.deepcopy(a)), d, cfg),
                     make_cfg(0, False, False, tool), data)
        if out is None:
            continue
        body = out.splitlines()[3:]
        for text, marks, what in [(x, '-<', 'removed') for x in removed] + [(x, '+>', 'added') for x in added]:
            if not any(ln[:1] in marks and text in ln[1:] for ln in body):
                ctx.violation('the %s source line %r is not shown by the %s renderer' % (what, text, tool), dict(data, kind='line-not-shown', line=text))
    # every renderer x colour x colour-words combination on a multi-line source change and a multi-line stream change
    for tool in ('git', 'diff', 'difflib'):
        for use_color in (False, True):
            for color_words in (False, True):
                lines = ['alpha = %d' % rng.randrange(100), 'beta = alpha + %d' % rng.randrange(100), 'print(alpha, beta)', 'gamma = %d' % rng.randrange(9)]
                a = {'nbformat': 4, 'nbformat_minor': 5, 'metadata': {}, 'cells': [{'cell_type': 'code', 'id': 'c1', 'metadata': {}, 'execution_count': 1,
                     'outputs': [{'output_type': 'stream', 'name': 'stdout', 'text': 'first line\nsecond line\nthird line\n'}], 'source': ''.join(x + '\n' for x in lines)}]}
                b = copy.deepcopy(a)
                b['cells'][0]['source'] = ''.join(x + '\n' for x in [lines[0], 'beta = alpha * 2', 'print(beta)', lines[3], 'delta = 1'])
                b['cells'][0]['outputs'][0]['text'] = 'first line\nsecond LINE changed\nthird line\nfourth\n'
                r, _ = c01.impl_diffnb(a, b)
                if r[0] != 'ok':
                    continue
                d = to_diffentry_dicts(copy.deepcopy(r[1]))
                data = {'a': enc(a), 'b': enc(b), 'ignored': [], 'use_color': use_color, 'color_words': color_words, 'tool': tool}
                ctx.count('combo:%s/%s/%s' % (tool, use_color, color_words))
                ctx.case('C' + canon(a) + canon(b) + json.dumps([tool, use_color, color_words]), True)
                out = render(ctx, 'pretty_print_notebook_diff', lambda cfg: pp.pretty_print_notebook_diff('a.ipynb', 'b.ipynb', nbformat.from_dict(copy.deepcopy(a)), d, cfg),
                             make_cfg(0, use_color, color_words, tool), data)
                if out is not None and len(out.splitlines()) <= 3:
                    ctx.violation('a diff touching sources and outputs prints nothing beyond the header', dict(data, kind='silent', diff=vlib.enc_diff(r[1])))
    # CLI legs: exit status and no ANSI with --no-color
    env = dict(os.environ, PYTHONPATH=vlib.REPO)
    with tempfile.TemporaryDirectory(prefix='verif-c16-') as td:
        for i in range(4 if ctx.tier == 'quick' else 40):
            a, b, kinds = gen_nb.pair(rng)
            a, b = no_esc(a), no_esc(b)
            pa, pb = os.path.join(td, 'a%d.ipynb' % i), os.path.join(td, 'b%d.ipynb' % i)
            json.dump(a, open(pa, 'w'))
            json.dump(b, open(pb, 'w'))
            flags = rng.sample(['-s', '-o', '-a', '-m', '-i', '-d'], rng.randrange(0, 3)) if rng.random() < 0.5 else rng.sample(['-S', '-O', '-A', '-M', '-I', '-D'], rng.randrange(0, 3))
            for argv, what in (([sys.executable, '-m', 'nbdime.nbdiffapp', '--no-color'] + flags + [pa, pb], 'nbdiff --no-color'),
                               ([sys.executable, '-m', 'nbdime.nbshowapp'] + flags + [pa], 'nbshow')):
                p = subprocess.run(argv, env=env, cwd=td, stdout=subprocess.PIPE, stderr=subprocess.PIPE)
                ctx.count('cli:' + what.split()[0])
                ctx.case(what + canon(a) + canon(b) + ' '.join(flags), True)
                data = {'a': enc(a), 'b': enc(b), 'flags': flags, 'what': what}
                if p.returncode != 0:
                    ctx.violation('%s %s exited %d: %s' % (what, flags, p.returncode, p.stderr.decode()[-200:]), dict(data, kind='cli-fails'))
                elif 'no-color' in what and ANSI.search(p.stdout.decode('utf8', 'replace')):
                    ctx.violation('%s emits ANSI escape codes' % what, dict(data, kind='ansi', what=what))
    ctx.sample({'configuration': {'ignored': ['outputs'], 'use_color': False, 'tool': 'difflib'}})
    if note and not ctx.violations:
        ctx.violation('generated obligation (col_const[False] = Pretty.plainConstants) no longer checks: ' + note, {'kind': 'obligation', 'theorem': 'gen/C16_Tables.lean', 'output': note}, found=False, classify=False)
    if mism and not ctx.violations:
        ctx.violation('correspondence Pretty.shouldIgnore <-> PrettyPrintConfig.should_ignore_path broken (%d); first: %s' % (len(mism), json.dumps(mism[0])[:300]),
                      {'kind': 'correspondence', 'stream': 'C16 shouldignore', 'first': mism[0][0]}, found=False, classify=False)


def replay(path):
    data = json.load(open(path))['data']
    print(json.dumps({k: data.get(k) for k in ('kind', 'what', 'msg', 'ignored', 'use_color', 'color_words', 'tool', 'sample')}))
    return 1
