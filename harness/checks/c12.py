"""C12 diffing is a pure function of its inputs: no dependence on process history.
Histories of diff / merge / ignore-configuration / reset calls are executed in one interpreter and,
call by call, in pristine interpreters (forked before anything ran; a sample also in truly fresh
spawned interpreters); the Lean state machine (NbdimeModel/History.lean) is run on the same history."""
import concurrent.futures, copy, json, os, subprocess, sys
import vlib, gen_nb
from vlib import enc, dec, canon
from checks import mergelib, c14

THEOREMS = ['Nbdime.C12_history_free', 'Nbdime.C12_diff_pure', 'Nbdime.C12_reset', 'Nbdime.run_configSuffix']
WORKER = os.path.join(vlib.VERIF, 'harness', 'c12_worker.py')


def gen_history(rng, n):
    """n calls; notebooks reuse a few metadata/JSON-output paths with list-of-lists vs list-of-objects"""
    calls = []
    pool = []
    for _ in range(3):
        nb = gen_nb.gen_notebook(rng)
        nb['metadata']['foo'] = rng.choice([[[1, 2], [3]], [{'x': 1}, 5], [{'x': 1}, {'x': 2}], {'foo': [[1]]}, {'foo': [{'k': 1}]}, [1, 2]])
        for c in nb['cells']:
            for o in c.get('outputs', []):
                if o['output_type'] in ('display_data', 'execute_result') and rng.random() < 0.5:
                    o['data']['application/json'] = rng.choice([[[1, 2]], [{'a': 1}], {'table': [[1, 2]]}, {'table': [{'c': 1}]}])
        assert gen_nb.is_valid(nb)
        pool.append(nb)
    for _ in range(n):
        r = rng.random()
        if r < 0.5:
            a = copy.deepcopy(rng.choice(pool))
            b, _k = gen_nb.edit_notebook(rng, a)
            if rng.random() < 0.4:
                b['metadata']['foo'] = rng.choice([[[1, 2], [4]], [{'x': 1}, 6], [{'x': 3}], {'foo': [{'k': 2}]}, {'foo': [[2]]}])
            calls.append({'t': 'diff', 'a': enc(a), 'b': enc(b)})
        elif r < 0.68:
            if rng.random() < 0.5:
                # both sides insert similar cells at one position: the merger aligns them with the notebook differ
                base, l, rr, _ = gen_nb.triple_scenario(rng, first='concurrent-insert')
            else:
                base = copy.deepcopy(rng.choice(pool))
                l, _ = gen_nb.edit_notebook(rng, base)
                rr, _ = gen_nb.edit_notebook(rng, base)
            args = rng.choice(mergelib.all_combos())
            calls.append({'t': 'merge', 'b': enc(base), 'l': enc(l), 'r': enc(rr), 'args': args.key()})
        elif r < 0.8:
            calls.append({'t': 'targets', 'flags': [rng.random() < 0.6 for _ in range(6)]})
        elif r < 0.9:
            ign = [c for c in c14.CATS if rng.random() < 0.3]
            m = c14.ignore_mapping(ign) if rng.random() < 0.5 else c14.keys_mapping(ign)
            if rng.random() < 0.3:
                m['/cells/*/source'] = False
            calls.append({'t': 'ignores', 'm': [[k, v] for k, v in m.items()]})
        else:
            calls.append({'t': 'reset'})
    return calls


CLI_FLAGS = [[], [], ['-s'], ['-m'], ['-o', '-m'], ['-S'], ['-M'], ['-d'], ['-O', '-A']]


def gen_cli_call(rng, pool):
    a = copy.deepcopy(rng.choice(pool))
    b, _k = gen_nb.edit_notebook(rng, a)
    for nb in (a, b):
        nb['metadata']['foo'] = rng.choice([[1], [2], {'k': 1}])
    b['metadata']['bar'] = rng.randrange(5)
    for c_ in b['cells'][:2]:
        c_['metadata']['tagz'] = rng.randrange(5)
    r = rng.random()
    if r < 0.25:
        cfg = None
    else:
        ign = [c for c in c14.CATS if rng.random() < 0.4]
        m = c14.ignore_mapping(ign) if rng.random() < 0.5 else c14.keys_mapping(ign)
        m['/metadata'] = rng.choice([['foo'], ['bar'], ['foo', 'bar'], True])
        cfg = {rng.choice(['NbDiff', 'Diff', 'NbDiff']): {'Ignore': m}}
    return {'t': 'cli', 'a': enc(a), 'b': enc(b), 'cfg': cfg, 'flags': rng.choice(CLI_FLAGS)}


def gen_cli_history(rng):
    """the nbdiff command run several times in one process from a directory with a configuration file"""
    pool = [gen_nb.gen_notebook(rng) for _ in range(2)]
    calls = []
    for _ in range(rng.choice([2, 3, 4])):
        calls.append(gen_cli_call(rng, pool))
        if rng.random() < 0.4:
            a = copy.deepcopy(rng.choice(pool))
            b, _k = gen_nb.edit_notebook(rng, a)
            calls.append({'t': 'diff', 'a': enc(a), 'b': enc(b)})
    return calls


def gen_merge_history(rng):
    """merges whose cell alignment consults the notebook differ, interleaved with configuration changes"""
    calls = []
    def merge():
        base, l, rr, _ = gen_nb.triple_scenario(rng, first='concurrent-insert')
        calls.append({'t': 'merge', 'b': enc(base), 'l': enc(l), 'r': enc(rr), 'args': rng.choice([mergelib.Args('inline'), mergelib.Args('mergetool'), rng.choice(mergelib.all_combos())]).key()})
    for _ in range(rng.choice([2, 3, 4])):
        merge()
        r = rng.random()
        if r < 0.5:
            flags = [rng.random() < 0.5 for _ in range(6)]
            calls.append({'t': 'targets', 'flags': flags})
        elif r < 0.75:
            calls.append({'t': 'reset'})
        else:
            ign = [c for c in c14.CATS if rng.random() < 0.5]
            calls.append({'t': 'ignores', 'm': [[k, v] for k, v in c14.ignore_mapping(ign).items()]})
    merge()
    return calls


def all_category_pair(rng):
    """(a, b): b differs from a in every category on cells that stay aligned: source, outputs, attachments, metadata, id,
    execution count"""
    minor = 5
    used = set()
    a = gen_nb.gen_notebook(rng, minor, ncells=0)
    a['cells'] = [gen_nb.long_cell(rng, minor, used, 'code'), gen_nb.long_cell(rng, minor, used, 'markdown'), gen_nb.long_cell(rng, minor, used, 'code')]
    b = copy.deepcopy(a)
    for c in b['cells']:
        c['id'] = gen_nb.new_id(rng, used)
        c['metadata'] = dict(c['metadata'], touched=rng.randrange(9))
        c['source'] = c['source'] + '\n# edited'
        if c['cell_type'] == 'code':
            c['execution_count'] = (c.get('execution_count') or 0) + 3
            c['outputs'] = c['outputs'] + [{'output_type': 'stream', 'name': 'stdout', 'text': 'more\n'}]
        else:
            c['attachments'] = {'pic.png': {'image/png': gen_nb.B64[0]}}
    return a, b


def gen_cycle_history(rng, k):
    """configure category k away (diff targets or an Ignore mapping), reset, then diff notebooks that differ in every category:
    after the reset everything must be as in a fresh interpreter"""
    cat = c14.CATS[k % len(c14.CATS)]
    calls = []
    a, b = all_category_pair(rng)
    if (k // len(c14.CATS)) % 2 == 0:
        calls.append({'t': 'targets', 'flags': [c != cat for c in c14.CATS]})
    else:
        calls.append({'t': 'ignores', 'm': [[p, v] for p, v in c14.ignore_mapping([cat]).items()]})
    if rng.random() < 0.5:
        calls.append({'t': 'diff', 'a': enc(a), 'b': enc(b)})
    calls.append({'t': 'reset'})
    calls.append({'t': 'diff', 'a': enc(a), 'b': enc(b)})
    base, l, rr, _ = gen_nb.triple_scenario(rng, first='concurrent-insert')
    calls.append({'t': 'merge', 'b': enc(base), 'l': enc(l), 'r': enc(rr), 'args': mergelib.Args('inline').key()})
    return calls


def run_worker(calls, single_index=None):
    env = dict(os.environ, PYTHONPATH=vlib.REPO)
    job = {'calls': calls}
    argv = [sys.executable, WORKER]
    if single_index is not None:
        job['index'] = single_index
        argv.append('--single')
    p = subprocess.run(argv, input=json.dumps(job).encode(), stdout=subprocess.PIPE, stderr=subprocess.PIPE, env=env, timeout=900)
    if p.returncode != 0:
        raise vlib.Infra('c12 worker failed: ' + p.stderr.decode()[-800:])
    return json.loads(p.stdout.decode())


def strip(r):
    return None if r is None else {k: v for k, v in r.items() if k in ('ok', 'err')}


def check_histories(ctx, histories, n_spawn):
    drv = vlib.Driver()
    with concurrent.futures.ThreadPoolExecutor(max_workers=14) as ex:
        results = list(ex.map(run_worker, histories))
    # model: same history, each diff with the oracle answers recorded in the in-history call
    reqs = []
    for calls, res in zip(histories, results):
        mc = []
        for c, h in zip(calls, res['hist']):
            if c['t'] == 'diff':
                mc.append({'t': 'diff', 'a': c['a'], 'b': c['b'], 'memo': h.get('memo', {})})
            elif c['t'] == 'merge':
                mc.append({'t': 'other'})
            elif c['t'] == 'cli':
                mc.append({'t': 'reset'})        # the command is followed by a reset of the differ
            else:
                mc.append(c)
        reqs.append({'cmd': 'hist', 'calls': mc})
    model = drv.run(reqs)
    spawn_jobs = []
    mism = []
    for hi, (calls, res, mres) in enumerate(zip(histories, results, model)):
        ctx.count('history-len:%d' % len(calls))
        nontrivial = sum(1 for c in calls if c['t'] in ('targets', 'ignores', 'reset', 'cli')) > 0
        ctx.case(json.dumps(calls, sort_keys=True), nontrivial)
        for i, c in enumerate(calls):
            ctx.count('call:' + c['t'])
            if c['t'] not in ('diff', 'merge', 'cli'):
                continue
            h, f = res['hist'][i], res['fresh'][str(i)]
            for cv in (h or {}).get('contract', []):
                ctx.violation('oracle contract violated: ' + cv, {'kind': 'oracle', 'calls': calls, 'index': i})
            ctx.cov['traces_validated_against_impl'] += 1
            if strip(h) != strip(f):
                ctx.violation('call %d (%s) of a %d-call history is answered differently than in a fresh interpreter: %s vs fresh %s'
                              % (i, c['t'], len(calls), json.dumps(strip(h))[:150], json.dumps(strip(f))[:150]),
                              {'kind': 'history-dependence', 'calls': calls, 'index': i, 'in_history': strip(h), 'fresh': strip(f)})
            if c['t'] == 'diff':
                m = mres['ok'][i]
                if strip(m) != strip(h):
                    mism.append({'calls': calls, 'index': i, 'impl': strip(h), 'model': strip(m)})
                if len(spawn_jobs) < n_spawn and ctx.rng.random() < 0.3:
                    spawn_jobs.append((calls, i, strip(h)))
        if hi == 0:
            ctx.sample({'history': [c['t'] + (':' + json.dumps(c.get('flags', c.get('m', '')))[:80] if c['t'] in ('targets', 'ignores') else '') for c in calls]})
    # truly fresh interpreters for a sample
    with concurrent.futures.ThreadPoolExecutor(max_workers=14) as ex:
        spawned = list(ex.map(lambda j: run_worker(j[0], j[1]), spawn_jobs))
    for (calls, i, h), s in zip(spawn_jobs, spawned):
        ctx.count('fresh-spawn')
        if strip(s) != h:
            ctx.violation('call %d answered differently than in a freshly spawned interpreter' % i,
                          {'kind': 'history-dependence', 'calls': calls, 'index': i, 'in_history': h, 'fresh': strip(s)})
    return mism


def run(ctx):
    ctx.cov['rule'] = ('histories of 3-12 calls (diff, merge under a random strategy, set_notebook_diff_targets, '
                       'set_notebook_diff_ignores, reset, and the nbdiff command run in-process from a directory with an nbdime_config.json) over a small pool of notebooks whose metadata / JSON outputs hold a list '
                       'of lists in one and a list of objects in another at the same path; each diff/merge result compared with a '
                       'pristine interpreter replaying only the configuration calls since the last reset; non-trivial = history '
                       'contains a configuration or reset call; distinct by full history')
    vlib.audit(ctx, 'NbdimeProofs', THEOREMS)
    rng = ctx.rng
    n = 36 if ctx.tier == 'quick' else 500
    histories = []
    cp = os.path.join(vlib.VERIF, 'corpus', 'C12.json')
    if os.path.exists(cp):
        histories += json.load(open(cp))
    histories += [gen_history(rng, rng.choice([3, 5, 8, 12])) for _ in range(n)]
    histories += [gen_merge_history(rng) for _ in range(14 if ctx.tier == 'quick' else 300)]
    histories += [gen_cli_history(rng) for _ in range(10 if ctx.tier == 'quick' else 150)]
    histories += [gen_cycle_history(rng, k) for k in range(12 if ctx.tier == 'quick' else 120)]
    mism = check_histories(ctx, histories, 12 if ctx.tier == 'quick' else 150)
    ctx.cov['correspondence_mismatches'] = len(mism)
    if mism and not ctx.violations:
        ctx.violation('correspondence: the Lean state machine answers a diff call of a history differently than the code (%d); first: %s'
                      % (len(mism), json.dumps(mism[0])[:300]),
                      {'kind': 'correspondence', 'stream': 'C12 hist', 'first': mism[0]}, found=False, classify=False)


def replay(path):
    data = json.load(open(path))['data']
    ctx = vlib.Ctx('C12', 'quick', 0)
    if 'calls' in data:
        check_histories(ctx, [data['calls']], 0)
    for what, p, found in ctx.violations:
        print('REPRODUCED:', what[:300])
    return 1 if ctx.violations else 0
