"""Shared helpers to run the real three-way merge and canonicalise its results."""
import copy, itertools, json
import vlib, gen_nb
from vlib import plain, canon, exc_class

MERGE = ['inline', 'use-base', 'use-local', 'use-remote']
INPUT = [None, 'inline', 'use-base', 'use-local', 'use-remote']
OUTPUT = [None, 'inline', 'use-base', 'use-local', 'use-remote', 'remove', 'clear-all']


class Args:
    def __init__(self, merge_strategy='inline', input_strategy=None, output_strategy=None, ignore_transients=True):
        self.merge_strategy, self.input_strategy, self.output_strategy = merge_strategy, input_strategy, output_strategy
        self.ignore_transients = ignore_transients
        self.log_level = 'INFO'

    def key(self):
        return [self.merge_strategy, self.input_strategy, self.output_strategy, self.ignore_transients]

    def cli(self):
        a = ['--merge-strategy', self.merge_strategy] if self.merge_strategy != 'mergetool' else []
        if self.input_strategy:
            a += ['--input-strategy', self.input_strategy]
        if self.output_strategy:
            a += ['--output-strategy', self.output_strategy]
        if not self.ignore_transients:
            a += ['--no-ignore-transients']
        return a


def all_combos():
    out = [Args(m, i, o, t) for m in MERGE for i in INPUT for o in OUTPUT for t in (True, False)]
    out += [Args('mergetool', None, None, True), Args('mergetool', None, None, False)]
    return out


def covering_combos(rng, n):
    """n combos that together cover every value of every strategy option"""
    combos = all_combos()
    rng.shuffle(combos)
    chosen, seen = [], set()
    for c in combos:
        feats = {('m', c.merge_strategy), ('i', c.input_strategy), ('o', c.output_strategy), ('t', c.ignore_transients)}
        if not feats <= seen:
            chosen.append(c)
            seen |= feats
    while len(chosen) < n:
        chosen.append(rng.choice(combos))
    return chosen[:max(n, len(chosen))]


def plain_decisions(ds):
    out = []
    for d in ds:
        e = plain(d)
        e['common_path'] = list(e.get('common_path') or [])
        out.append(e)
    return out


def nbnode(nb):
    import nbformat
    return nbformat.from_dict(copy.deepcopy(nb))


LAST_ERROR_SITE = [None]
REAPPLIED = [None]   # set by run_merge when re-applying the returned decisions does not reproduce the merged notebook


def run_merge(b, l, r, args):
    from nbdime.merging.notebooks import merge_notebooks
    try:
        merged, decisions = merge_notebooks(nbnode(b), nbnode(l), nbnode(r), args)
        out = ('ok', plain(merged), plain_decisions(decisions))
        REAPPLIED[0] = None
        try:
            # the decisions returned with the merge describe it: applying them to base again gives the merged notebook
            from nbdime.merging.decisions import apply_decisions
            known = known_ids(b, l, r)
            again = plain(apply_decisions(nbnode(b), decisions))
            if canon(mask_new_ids(again, known)) != canon(mask_new_ids(out[1], known)):
                REAPPLIED[0] = again
        except Exception as e:
            REAPPLIED[0] = 'raised %s: %s' % (type(e).__name__, str(e)[:120])
        return out
    except Exception as e:
        import traceback
        tb = traceback.extract_tb(e.__traceback__)
        where = ['%s:%s:%d' % (f.filename.split('/nbdime/')[-1], f.name, f.lineno) for f in tb[-3:]]
        LAST_ERROR_SITE[0] = [type(e).__name__] + [f.name for f in reversed(tb[-2:])]
        return ('err', exc_class(e), '%s: %s @ %s' % (type(e).__name__, str(e)[:200], ' < '.join(reversed(where))))


def run_decide(b, l, r, args):
    from nbdime.merging.notebooks import decide_notebook_merge
    try:
        return ('ok', plain_decisions(decide_notebook_merge(nbnode(b), nbnode(l), nbnode(r), args)))
    except Exception as e:
        return ('err', exc_class(e), '%s: %s' % (type(e).__name__, str(e)[:200]))


def known_ids(*nbs):
    return {c['id'] for nb in nbs for c in nb.get('cells', []) if isinstance(c, dict) and isinstance(c.get('id'), str)}


def mask_new_ids(v, known):
    """nbformat gives conflict-marker cells random ids: mask every cell id not present in the inputs"""
    if isinstance(v, dict):
        out = {k: mask_new_ids(x, known) for k, x in v.items()}
        if 'cell_type' in out and isinstance(out.get('id'), str) and out['id'] not in known:
            out['id'] = '<new-id>'
        return out
    if isinstance(v, list):
        return [mask_new_ids(x, known) for x in v]
    return v


def has_conflict(decisions):
    return any(d.get('conflict') for d in decisions)


def sub_document(doc, path):
    """follow a decision path; an integer key into a string addresses a line (split_string_path)"""
    for k in path:
        if isinstance(doc, str):
            doc = doc.splitlines(True)[k]
            return doc, True
        doc = doc[k]
    return doc, False


class Origin(str):
    """origin label of a diff that also carries the merge it came from (for replays and classifiers)"""
    meta = None


def decision_diffs(rng, first=None):
    """(origin, sub-document at the common path, diff) for every diff inside the decisions of one merge"""
    # random edit scripts, and the targeted conflict scenarios (strategies write custom diffs only on conflicts)
    b, l, r, kinds = gen_nb.triple(rng) if first is None else gen_nb.triple_scenario(rng, first=first)
    args = rng.choice([Args('mergetool'), Args('inline'), Args('inline'), Args(rng.choice(MERGE), rng.choice(INPUT), rng.choice(OUTPUT), rng.random() < 0.7)])
    res = run_decide(b, l, r, args)
    out = []
    if res[0] != 'ok':
        return out
    for d in res[1]:
        try:
            sub, is_line = sub_document(b, d['common_path'])
        except (KeyError, IndexError, TypeError):
            continue
        for field in ('local_diff', 'remote_diff', 'custom_diff'):
            dd = d.get(field)
            if dd:
                o = Origin('decision.' + field + ('.line' if is_line else ''))
                o.meta = {'strategy': args.key(), 'path': list(d['common_path']), 'action': d.get('action'), 'conflict': bool(d.get('conflict')),
                          'b': vlib.enc(b), 'l': vlib.enc(l), 'r': vlib.enc(r)}
                out.append((o, sub, dd))
    return out


# ------------------------------------------------------------------ text-merge renderer selection
import contextlib


@contextlib.contextmanager
def renderer(mode):
    """force the text merge helper: 'git' (git merge-file), 'diff3', or 'builtin'"""
    import nbdime.prettyprint as pp
    cfg = pp.DefaultConfig
    saved = (cfg.use_git, cfg.use_diff)
    cfg.use_git, cfg.use_diff = {'git': (True, True), 'diff3': (False, True), 'builtin': (False, False)}[mode]
    try:
        yield
    finally:
        cfg.use_git, cfg.use_diff = saved


RENDERERS = ['git', 'diff3', 'builtin']


def source_lines(nb):
    out = []
    for c in nb.get('cells', []):
        src = c.get('source', '')
        if isinstance(src, list):
            src = ''.join(src)
        out.extend(src.splitlines())
    return out


def nonblank(lines):
    return [ln for ln in (x.strip() for x in lines) if ln]


def concurrent_insert(d1, d2):
    """do two diffs (same base) both insert at the same position of the same list?"""
    k1 = {e['key']: e for e in d1 if e['op'] == 'addrange'}
    for e in d2:
        if e['op'] == 'addrange' and e['key'] in k1:
            return True
    p1 = {e['key']: e for e in d1 if e['op'] == 'patch'}
    for e in d2:
        if e['op'] == 'patch' and e['key'] in p1 and concurrent_insert(p1[e['key']]['diff'], e['diff']):
            return True
    # dict level: both add the same key
    a1 = {e['key'] for e in d1 if e['op'] == 'add'}
    if any(e['op'] == 'add' and e['key'] in a1 for e in d2):
        return True
    return False


@vlib.classifier('merge-crash-site')
def _cls_site(data, finding):
    """exception class and the two innermost functions of the traceback, under the named output strategy"""
    return (data.get('kind') == 'merge-raises' and data.get('site') == finding['param']['site']
            and data.get('strategy', [None] * 3)[2] in finding['param']['output_strategy'])
