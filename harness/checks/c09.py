"""C09 merge decisions losslessly describe the merge and follow the published schema.
Model: NbdimeModel/Apply.lean (independent applier: split_string_path, resolve_action, push_path,
combine_patches, apply_decisions). Tie: decisions and merged notebooks produced by the real merger
are applied by the Lean applier and compared; 'choose local / remote for every decision' is evaluated
by both appliers; jsonschema against merge_format.schema.json; ordering predicate run in Lean."""
import copy, json, os
import jsonschema
import vlib, gen_nb
from vlib import enc, dec, enc_diff, canon, plain
from checks import mergelib

THEOREMS = ['Nbdime.C09_childrenFirst_sound', 'Nbdime.C09_base_noop', 'Nbdime.C09_chooseSide_action', 'Nbdime.C09_apply_single_root']


def enc_decisions(ds):
    out = []
    for d in ds:
        out.append({'path': list(d.get('common_path') or []), 'action': d.get('action'), 'conflict': bool(d.get('conflict')),
                    'local': enc_diff(d.get('local_diff')), 'remote': enc_diff(d.get('remote_diff')),
                    'custom': enc_diff(d.get('custom_diff'))})
    return out


def schema_validator():
    base = os.path.join(vlib.REPO, 'nbdime')
    schema = json.load(open(os.path.join(base, 'merge_format.schema.json')))
    store = {'diff_format.schema.json': json.load(open(os.path.join(base, 'diff_format.schema.json')))}
    resolver = jsonschema.RefResolver('file://' + base + '/', schema, store={'file://' + base + '/diff_format.schema.json': store['diff_format.schema.json']})
    return jsonschema.Draft4Validator(schema, resolver=resolver)


def impl_apply(b, decisions):
    from nbdime.merging.decisions import apply_decisions, MergeDecision
    from nbdime.diff_utils import to_diffentry_dicts
    try:
        ds = []
        for d in decisions:
            e = MergeDecision({k: (to_diffentry_dicts(copy.deepcopy(v)) if k.endswith('_diff') and v is not None else copy.deepcopy(v)) for k, v in d.items()})
            e['common_path'] = tuple(e.get('common_path') or ())
            ds.append(e)
        return ('ok', plain(apply_decisions(mergelib.nbnode(b), ds)))
    except Exception as e:
        return ('err', vlib.exc_class(e), '%s: %s' % (type(e).__name__, str(e)[:200]))


def choose(decisions, side):
    out = []
    for d in decisions:
        e = copy.deepcopy(d)
        e['action'] = side
        e['local_diff'] = e.get('local_diff') or []
        e['remote_diff'] = e.get('remote_diff') or []
        out.append(e)
    return out


@vlib.classifier('numeric-alias-side')
def _cls_alias_side(data, finding):
    """F-eq seen through the decisions: the chosen side is reproduced up to numbers that Python's == identifies"""
    from checks.c02 import norm_alias
    if data.get('kind') != 'side-differs' or data.get('side') not in ('local', 'remote'):
        return False
    got, want = dec(data['got']), dec(data['l' if data['side'] == 'local' else 'r'])
    if not (canon(got) != canon(want) and canon(norm_alias(got)) == canon(norm_alias(want))):
        return False
    # the finding is about changes the differ cannot see: at every differing place the result must still hold the BASE value
    # (a value taken from the other side, or from anywhere else, is something new)
    base = dec(data['b'])

    def leaves(x, y, path=()):
        if isinstance(x, dict) and isinstance(y, dict):
            for k in x:
                if k in y:
                    yield from leaves(x[k], y[k], path + (k,))
        elif isinstance(x, list) and isinstance(y, list):
            for i, (a, b) in enumerate(zip(x, y)):
                yield from leaves(a, b, path + (i,))
        elif canon(x) != canon(y):
            yield path, x

    def base_values(doc, key, acc):
        if isinstance(doc, dict):
            for k, v in doc.items():
                if k == key and not isinstance(v, (dict, list)):
                    acc.append(v)
                base_values(v, key, acc)
        elif isinstance(doc, list):
            for v in doc:
                if key is None and not isinstance(v, (dict, list)):
                    acc.append(v)
                base_values(v, key, acc)
        return acc

    for path, g in leaves(got, want):
        v, ok = base, True
        for k in path:
            try:
                v = v[k]
            except (KeyError, IndexError, TypeError):
                ok = False
                break
        if ok and canon(v) == canon(g):
            continue
        # list indices may have shifted: the value has to occur in base under the same key (or as an item of a list)
        last = path[-1] if path and isinstance(path[-1], str) else None
        if not any(canon(x) == canon(g) for x in base_values(base, last, [])):
            return False
    return True


@vlib.classifier('takemax-schema')
def _cls_takemax(data, finding):
    return data.get('kind') == 'schema' and data.get('bad_actions') == ['take_max']


def check_triples(ctx, cases):
    drv = vlib.Driver()
    val = schema_validator()
    reqs, metas = [], []
    for (b, l, r, kinds, args) in cases:
        res = mergelib.run_merge(b, l, r, args)
        data = {'b': enc(b), 'l': enc(l), 'r': enc(r), 'strategy': args.key()}
        ctx.count('strategy:' + str(args.merge_strategy))
        if res[0] != 'ok':
            ctx.case(canon(b) + canon(l) + canon(r) + json.dumps(args.key()), True)
            ctx.violation('merge raised %s' % res[2], dict(data, kind='merge-raises', msg=res[2], site=mergelib.LAST_ERROR_SITE[0]))
            continue
        merged, decisions = res[1], res[2]
        ctx.case(canon(b) + canon(l) + canon(r) + json.dumps(args.key()), bool(decisions))
        ctx.count('decisions:%d' % min(len(decisions), 8))
        if decisions and len(json.dumps(decisions)) < 900:
            ctx.sample({'strategy': args.key(), 'decisions': decisions}, limit=3)
        data['decisions'] = decisions
        known = mergelib.known_ids(b, l, r)
        # schema, plain JSON, order
        errs = [e.message[:160] for e in val.iter_errors(json.loads(json.dumps(decisions)))][:3]
        if errs:
            bad = sorted({d['action'] for d in decisions} - {'local', 'remote', 'base', 'clear', 'clear_all', 'remove', 'either', 'local_then_remote', 'remote_then_local', 'custom'})
            ctx.violation('decision list violates merge_format.schema.json: %s' % errs, dict(data, kind='schema', bad_actions=bad))
        try:
            if json.loads(json.dumps(decisions)) != decisions:
                ctx.violation('decision list does not survive a JSON round trip', dict(data, kind='json'))
        except (TypeError, ValueError) as e:
            ctx.violation('decision list is not plain JSON: %s' % e, dict(data, kind='json'))
        ed = enc_decisions(decisions)
        reqs.append({'cmd': 'childrenfirst', 'decisions': ed})
        reqs.append({'cmd': 'apply', 'base': enc(b), 'decisions': ed})
        mt = args.merge_strategy == 'mergetool'
        if mt:
            reqs.append({'cmd': 'applyas', 'side': 'local', 'base': enc(b), 'decisions': ed})
            reqs.append({'cmd': 'applyas', 'side': 'remote', 'base': enc(b), 'decisions': ed})
        metas.append((data, b, l, r, merged, decisions, known, mt))
    replies = iter(drv.run(reqs))
    mism = []
    for data, b, l, r, merged, decisions, known, mt in metas:
        order, applied = next(replies), next(replies)
        if order.get('ok') is not True:
            ctx.violation('a decision on an enclosing path precedes a decision inside it', dict(data, kind='order'))
        ctx.cov['traces_validated_against_impl'] += 1
        want = canon(mergelib.mask_new_ids(merged, known))
        if 'ok' not in applied:
            mism.append(dict(data, kind='corr-apply', model=applied))
            ctx.count('model-apply-error:' + str(applied.get('err')))
        elif canon(mergelib.mask_new_ids(dec(applied['ok']), known)) != want:
            ctx.violation('applying the decisions to base (independent applier) does not give the merged notebook', dict(data, kind='apply-differs', got=applied['ok']))
        ia = impl_apply(b, decisions)
        if ia[0] != 'ok' or canon(mergelib.mask_new_ids(ia[1], known)) != want:
            ctx.violation('apply_decisions(base, decisions) does not reproduce the merged notebook: %s' % (ia[2] if ia[0] != 'ok' else 'differs'), dict(data, kind='apply-differs'))
        if mt:
            for side, target in (('local', l), ('remote', r)):
                rep = next(replies)
                ii = impl_apply(b, choose(decisions, side))
                t = canon(target)
                if ii[0] != 'ok':
                    ctx.violation('choosing %s for every decision fails: %s' % (side, ii[2]), dict(data, kind='side-fails', side=side))
                elif canon(ii[1]) != t:
                    ctx.violation('choosing %s for every decision does not reproduce the %s notebook' % (side, side), dict(data, kind='side-differs', side=side, got=enc(ii[1])))
                if ('ok' in rep) != (ii[0] == 'ok') or ('ok' in rep and canon(dec(rep['ok'])) != canon(ii[1])):
                    mism.append(dict(data, kind='corr-applyas', side=side, model=rep, impl=ii[0]))
    return mism


def gen_cases(ctx):
    rng = ctx.rng
    n = 130 if ctx.tier == 'quick' else 1500
    combos = mergelib.all_combos()
    cases = []
    for i in range(n):
        b, l, r, kinds = gen_nb.any_triple(rng, minor_change=rng.random() < 0.3)
        strategies = [mergelib.Args('mergetool', None, None, rng.random() < 0.8), rng.choice(combos)]
        if i % 4 == 0:
            strategies.append(mergelib.Args('inline'))
        for a in strategies:
            cases.append((b, l, r, kinds, a))
    return cases


def _run_property(ctx):
    ctx.cov['rule'] = ('notebook triples (local and remote independent edit scripts of a generated base, 30% with format minor versions raised on '
                       'either side) x {mergetool strategy, a random CLI strategy combination, default inline}; non-trivial = at least one decision; '
                       'distinct by (triple, strategy)')
    vlib.audit(ctx, 'NbdimeProofs', THEOREMS)
    mism = check_triples(ctx, gen_cases(ctx))
    ctx.cov['correspondence_mismatches'] = len(mism)
    if mism and not ctx.violations:
        ctx.violation('correspondence Apply model <-> apply_decisions broken (%d); first: %s' % (len(mism), json.dumps(mism[0], default=repr)[:400]),
                      {'kind': 'correspondence', 'stream': 'C09 apply', 'first': {k: v for k, v in mism[0].items() if k in ('kind', 'model', 'strategy', 'side')}},
                      found=False, classify=False)


MERGE_MODEL_THEOREMS = ['Nbdime.C09_validated_childrenFirst', 'Nbdime.C09_decideMerge_childrenFirst', 'Nbdime.C09_model_keywise_apply', 'Nbdime.C09_model_keywise_choose_local', 'Nbdime.C09_model_keywise_choose_remote', 'Nbdime.C09_model_keywise_all', 'Nbdime.C09_model_cells_choose', 'Nbdime.desc_three', 'Nbdime.filter_sortDesc', 'Nbdime.C06_model_mixed', 'Nbdime.C06_model_cells']
THEOREMS.extend(t for t in MERGE_MODEL_THEOREMS if t not in THEOREMS)


def run(ctx):
    from checks import mergemodel
    _run_property(ctx)
    mergemodel.tie(ctx, (50, 30, 600, 300), MERGE_MODEL_THEOREMS)


def replay(path):
    _d = json.load(open(path))['data']
    if _d.get('kind') == 'correspondence' and _d.get('stream') == 'merge-model':
        from checks import mergemodel
        return mergemodel.replay_case(_d)
    return _replay_property(path)


def _replay_property(path):
    data = json.load(open(path))['data']
    ctx = vlib.Ctx('C09', 'quick', 0)
    if 'b' in data:
        check_triples(ctx, [(dec(data['b']), dec(data['l']), dec(data['r']), ['replay'], mergelib.Args(*data['strategy']))])
    for what, p, found in ctx.violations:
        print('REPRODUCED:', what[:300])
    for k in ctx.known:
        print('KNOWN-FINDING (reproduced):', k['tag'])
    return 1 if (ctx.violations or ctx.known) else 0
