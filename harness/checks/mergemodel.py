"""Correspondence between the Lean model of the three-way merger (NbdimeModel/Merge*.lean) and
nbdime.merging.generic.decide_merge_with_diff: same base, same two diffs, same strategy table,
same recorded oracle answers (similarity predicates, difflib, text merge renderer)."""
import copy, json
import vlib, nbcfg
from vlib import enc, enc_diff, plain, exc_class
from checks import mergelib

MARK = '<span style="color:red"><b>'


def mask_markers(v):
    """marker cells made by nbformat.v4.new_markdown_cell carry a random id"""
    if isinstance(v, dict):
        out = {k: mask_markers(x) for k, x in v.items()}
        if out.get('cell_type') == 'markdown' and isinstance(out.get('source'), str) and out['source'].startswith(MARK) and 'id' in out:
            out['id'] = '<new-id>'
        return out
    if isinstance(v, list):
        return [mask_markers(x) for x in v]
    return v


class RenderMemo:
    def __init__(self):
        self.calls = []

    def install(self):
        import nbdime.merging.strategies as S
        self._S, self._orig = S, S.merge_render

        def wrapper(b, l, r, strategy=None, *a, **kw):
            res = self._orig(b, l, r, strategy, *a, **kw)
            if strategy is None and all(isinstance(x, str) for x in (b, l, r)) and isinstance(res[0], str):
                self.calls.append([b, l, r, res[0], int(res[1])])
            return res
        S.merge_render = wrapper

    def remove(self):
        self._S.merge_render = self._orig


def strategies_json(s):
    return {'table': sorted([k, v] for k, v in dict(s).items() if v is not None),
            'transients': list(getattr(s, 'transients', []) or [])}


def canon_decision(d):
    return {'path': list(d.get('common_path') or []), 'action': d.get('action'), 'conflict': bool(d.get('conflict')),
            'local': enc_diff(mask_markers(d.get('local_diff'))), 'remote': enc_diff(mask_markers(d.get('remote_diff'))),
            'custom': enc_diff(mask_markers(d.get('custom_diff'))), 'similar': enc_diff(d.get('similar_insert'))}


def impl_decide(base, ld, rd, strategies):
    """run the real decision procedure on given diffs; returns (result, request for the model)"""
    from nbdime.merging.generic import decide_merge_with_diff
    rm = RenderMemo()
    rm.install()
    try:
        with vlib.recording() as memo:
            try:
                ds = decide_merge_with_diff(copy.deepcopy(base), None, None, copy.deepcopy(ld), copy.deepcopy(rd), copy.deepcopy(strategies))
                res = {'ok': [canon_decision(plain(d)) for d in ds]}
            except RecursionError:
                raise
            except Exception as e:
                res = {'err': exc_class(e), 'what': '%s: %s' % (type(e).__name__, str(e)[:160])}
    finally:
        rm.remove()
        # _merge_strings keeps its recursion flag in a function attribute: an exception cannot leave it set (finally), but be safe
        import nbdime.merging.generic as G
        G._merge_strings.recursion = False
    req = {'cmd': 'merge', 'base': enc(plain(base)), 'local': enc_diff(plain(ld)), 'remote': enc_diff(plain(rd)),
           'strategies': strategies_json(strategies), 'cfg': nbcfg.extract_cfg(), 'memo': memo.to_json(),
           'render': rm.calls, 'builtin': False}
    return res, req


def same(res, reply):
    if 'err' in res:
        return reply.get('err') == res['err']
    if 'ok' not in reply:
        return False
    return json.dumps(res['ok'], sort_keys=True) == json.dumps(reply['ok'], sort_keys=True)


def first_difference(res, reply):
    if 'err' in res or 'ok' not in reply:
        return {'impl': str(res)[:300], 'model': str({k: v for k, v in reply.items() if k != 'ok'} or 'ok')[:300]}
    a, b = res['ok'], reply['ok']
    if len(a) != len(b):
        return {'impl_n': len(a), 'model_n': len(b), 'impl_paths': [d['path'] + [d['action']] for d in a][:12],
                'model_paths': [d['path'] + [d['action']] for d in b][:12]}
    for i, (x, y) in enumerate(zip(a, b)):
        if json.dumps(x, sort_keys=True) != json.dumps(y, sort_keys=True):
            for k in x:
                if json.dumps(x[k], sort_keys=True) != json.dumps(y.get(k), sort_keys=True):
                    return {'index': i, 'field': k, 'impl': json.dumps(x[k])[:400], 'model': json.dumps(y.get(k))[:400], 'path': x['path']}
    return {}


def notebook_case(b, l, r, args):
    """the diffs and the strategy table decide_notebook_merge would use"""
    from nbdime.diffing.notebooks import diff_notebooks
    from nbdime.merging.notebooks import notebook_merge_strategies
    nb, nl, nr = mergelib.nbnode(b), mergelib.nbnode(l), mergelib.nbnode(r)
    ld, rd = diff_notebooks(nb, nl), diff_notebooks(nb, nr)
    return nb, ld, rd, notebook_merge_strategies(args)
