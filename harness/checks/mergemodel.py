"""Correspondence between the Lean model of the three-way merger (NbdimeModel/Merge*.lean) and
nbdime.merging.generic.decide_merge_with_diff: same base, same two diffs, same strategy table,
same recorded oracle answers (similarity predicates, difflib, text merge renderer)."""
import copy, json
import vlib, nbcfg
from vlib import enc, enc_diff, plain, exc_class
from checks import mergelib

MARK = '<span style="color:red"><b>'


def mask_markers(v):
    """marker cells made by nbformat.v4.new_markdown_cell carry a random id"""
    if isinstance(v, dict):
        out = {k: mask_markers(x) for k, x in v.items()}
        if out.get('cell_type') == 'markdown' and isinstance(out.get('source'), str) and out['source'].startswith(MARK) and 'id' in out:
            out['id'] = '<new-id>'
        return out
    if isinstance(v, list):
        return [mask_markers(x) for x in v]
    return v


class RenderMemo:
    def __init__(self):
        self.calls = []

    def install(self):
        import nbdime.merging.strategies as S
        self._S, self._orig = S, S.merge_render

        def wrapper(b, l, r, strategy=None, *a, **kw):
            res = self._orig(b, l, r, strategy, *a, **kw)
            if strategy is None and all(isinstance(x, str) for x in (b, l, r)) and isinstance(res[0], str):
                self.calls.append([b, l, r, res[0], int(res[1])])
            return res
        S.merge_render = wrapper

    def remove(self):
        self._S.merge_render = self._orig


def strategies_json(s):
    return {'table': sorted([k, v] for k, v in dict(s).items() if v is not None),
            'transients': list(getattr(s, 'transients', []) or [])}


def canon_decision(d):
    return {'path': list(d.get('common_path') or []), 'action': d.get('action'), 'conflict': bool(d.get('conflict')),
            'local': enc_diff(mask_markers(d.get('local_diff'))), 'remote': enc_diff(mask_markers(d.get('remote_diff'))),
            'custom': enc_diff(mask_markers(d.get('custom_diff'))), 'similar': enc_diff(d.get('similar_insert'))}


def impl_decide(base, ld, rd, strategies):
    """run the real decision procedure on given diffs; returns (result, request for the model)"""
    from nbdime.merging.generic import decide_merge_with_diff
    rm = RenderMemo()
    rm.install()
    try:
        with vlib.recording() as memo:
            try:
                ds = decide_merge_with_diff(copy.deepcopy(base), None, None, copy.deepcopy(ld), copy.deepcopy(rd), copy.deepcopy(strategies))
                res = {'ok': [canon_decision(plain(d)) for d in ds]}
            except RecursionError:
                raise
            except Exception as e:
                res = {'err': exc_class(e), 'what': '%s: %s' % (type(e).__name__, str(e)[:160])}
    finally:
        rm.remove()
        # _merge_strings keeps its recursion flag in a function attribute: an exception cannot leave it set (finally), but be safe
        import nbdime.merging.generic as G
        G._merge_strings.recursion = False
    req = {'cmd': 'merge', 'base': enc(plain(base)), 'local': enc_diff(plain(ld)), 'remote': enc_diff(plain(rd)),
           'strategies': strategies_json(strategies), 'cfg': nbcfg.extract_cfg(), 'memo': memo.to_json(),
           'render': rm.calls, 'builtin': False}
    return res, req


def same(res, reply):
    if 'err' in res:
        return reply.get('err') == res['err']
    if 'ok' not in reply:
        return False
    return json.dumps(res['ok'], sort_keys=True) == json.dumps(reply['ok'], sort_keys=True)


def first_difference(res, reply):
    if 'err' in res or 'ok' not in reply:
        return {'impl': str(res)[:300], 'model': str({k: v for k, v in reply.items() if k != 'ok'} or 'ok')[:300]}
    a, b = res['ok'], reply['ok']
    if len(a) != len(b):
        return {'impl_n': len(a), 'model_n': len(b), 'impl_paths': [d['path'] + [d['action']] for d in a][:12],
                'model_paths': [d['path'] + [d['action']] for d in b][:12]}
    for i, (x, y) in enumerate(zip(a, b)):
        if json.dumps(x, sort_keys=True) != json.dumps(y, sort_keys=True):
            for k in x:
                if json.dumps(x[k], sort_keys=True) != json.dumps(y.get(k), sort_keys=True):
                    return {'index': i, 'field': k, 'impl': json.dumps(x[k])[:400], 'model': json.dumps(y.get(k))[:400], 'path': x['path']}
    return {}


def notebook_case(b, l, r, args):
    """the diffs and the strategy table decide_notebook_merge would use"""
    from nbdime.diffing.notebooks import diff_notebooks
    from nbdime.merging.notebooks import notebook_merge_strategies
    nb, nl, nr = mergelib.nbnode(b), mergelib.nbnode(l), mergelib.nbnode(r)
    ld, rd = diff_notebooks(nb, nl), diff_notebooks(nb, nr)
    return nb, ld, rd, notebook_merge_strategies(args)


def generic_case(b, l, r):
    """decide_merge(base, local, remote) on generic JSON: generic diffs, empty strategy table"""
    import nbdime
    from nbdime.utils import Strategies
    return copy.deepcopy(b), nbdime.diff(b, l), nbdime.diff(b, r), Strategies({})


def correspond(ctx, drv, cases, label='merge-model'):
    """cases: (tag, base, local_diff, remote_diff, strategies, helper-or-None, data-for-replay).
    Runs decide_merge_with_diff and the Lean merger on each; returns the mismatches."""
    metas, reqs = [], []
    for tag, base, ld, rd, S, helper, data in cases:
        if helper:
            with mergelib.renderer(helper):
                res, req = impl_decide(base, ld, rd, S)
        else:
            res, req = impl_decide(base, ld, rd, S)
        metas.append((tag, res, data))
        reqs.append(req)
    mism = []
    for (tag, res, data), rep in zip(metas, drv.run(reqs) if reqs else []):
        ctx.cov['traces_validated_against_impl'] += 1
        ctx.count(label + ':cases')
        if 'ok' in res:
            ctx.count(label + ':decisions', len(res['ok']))
            ctx.count(label + ':conflicted', sum(1 for d in res['ok'] if d['conflict']))
            ctx.count(label + ':custom', sum(1 for d in res['ok'] if d['action'] == 'custom'))
        else:
            ctx.count(label + ':impl-raises')
        if not same(res, rep):
            mism.append({'stream': label, 'tag': tag, 'difference': first_difference(res, rep), 'case': data})
    ctx.cov['correspondence_mismatches'] = ctx.cov.get('correspondence_mismatches', 0) + len(mism)
    return mism


def report(ctx, mism, theorems):
    """a broken correspondence with no failing input found by the property search"""
    if mism and not any(found for _, _, found in ctx.violations):
        ctx.violation('the Lean model of the merger (theorems %s) and decide_merge_with_diff disagree on %d case(s); first: %s'
                      % (', '.join(theorems), len(mism), json.dumps(mism[0]['difference'])[:300]),
                      {'kind': 'correspondence', 'stream': mism[0]['stream'], 'theorems': theorems, 'first': mism[0]},
                      found=False, classify=False)


def small_generic(rng):
    """generic JSON triples: lists, line strings, objects over a small alphabet, nested one level"""
    alpha = ['a', 'b', 'c', 'd']
    kind = rng.choice(['list', 'str', 'dict', 'nested'])

    def lst():
        return [rng.choice(alpha) for _ in range(rng.randint(0, 4))]

    def edit(xs):
        xs = list(xs)
        for _ in range(rng.randint(0, 2)):
            op = rng.choice(['ins', 'del', 'rep'])
            if op == 'ins' or not xs:
                xs.insert(rng.randint(0, len(xs)), rng.choice(alpha))
            elif op == 'del':
                del xs[rng.randrange(len(xs))]
            else:
                xs[rng.randrange(len(xs))] = rng.choice(alpha)
        return xs
    if kind == 'list':
        b = lst()
        return b, edit(b), edit(b)
    if kind == 'str':
        b = [x * rng.randint(1, 3) + '\n' for x in lst()]
        return ''.join(b), ''.join(edit(b)), ''.join(edit(b))
    if kind == 'dict':
        def d():
            return {k: rng.choice(alpha) for k in 'xyz' if rng.random() < 0.6}
        return d(), d(), d()
    b = {'p': lst(), 'q': {'s': ''.join(x + '\n' for x in lst()), 't': lst()}, 'r': [lst(), lst()]}
    def ed(doc):
        doc = copy.deepcopy(doc)
        if rng.random() < 0.6:
            doc['p'] = edit(doc['p'])
        if rng.random() < 0.6:
            doc['q']['s'] = ''.join(edit(doc['q']['s'].splitlines(True)))
        if rng.random() < 0.5:
            doc['q']['t'] = edit(doc['q']['t'])
        if rng.random() < 0.5 and doc['r']:
            i = rng.randrange(len(doc['r']))
            doc['r'][i] = edit(doc['r'][i])
        if rng.random() < 0.2:
            doc.pop(rng.choice(sorted(doc)))
        return doc
    return b, ed(b), ed(b)


def run_stream(ctx, drv, rng, n_nb, n_generic, combos=None, label='merge-model'):
    """generated notebook triples x strategy combinations x helpers, and generic triples"""
    import gen_nb
    combos = combos or mergelib.all_combos()
    cases = []
    for t in range(n_nb):
        b, l, r, kinds = gen_nb.any_triple(rng, minor_change=rng.random() < 0.15)
        a = combos[t % len(combos)] if t < len(combos) and len(combos) <= 12 else rng.choice(combos)
        md = mergelib.RENDERERS[t % 3]
        try:
            nb, ld, rd, S = notebook_case(b, l, r, a)
        except Exception:
            ctx.count(label + ':differ-raises')
            continue
        ctx.count(label + ':strategy:' + str(a.merge_strategy))
        cases.append(('nb', nb, ld, rd, S, md, {'b': enc(b), 'l': enc(l), 'r': enc(r), 'strategy': a.key(), 'helper': md, 'scenario': kinds}))
    for t in range(n_generic):
        b, l, r = small_generic(rng)
        try:
            base, ld, rd, S = generic_case(b, l, r)
        except Exception:
            ctx.count(label + ':differ-raises')
            continue
        cases.append(('generic', base, ld, rd, S, None, {'b': enc(b), 'l': enc(l), 'r': enc(r), 'generic': True}))
    return correspond(ctx, drv, cases, label)


def replay_case(data):
    """re-run one recorded correspondence case; returns 1 when model and implementation still disagree"""
    from vlib import dec
    c = data['first']['case']
    b, l, r = dec(c['b']), dec(c['l']), dec(c['r'])
    if c.get('generic'):
        base, ld, rd, S = generic_case(b, l, r)
        helper = None
    else:
        base, ld, rd, S = notebook_case(b, l, r, mergelib.Args(*c['strategy']))
        helper = c.get('helper')
    if helper:
        with mergelib.renderer(helper):
            res, req = impl_decide(base, ld, rd, S)
    else:
        res, req = impl_decide(base, ld, rd, S)
    rep = vlib.Driver().run([req])[0]
    if same(res, rep):
        print('model and implementation agree on the recorded case')
        return 0
    print('DISAGREE:', json.dumps(first_difference(res, rep))[:800])
    return 1


def tie(ctx, sizes, theorems, combos=None):
    """standard use from a check: stream + report"""
    n_nb, n_gen = sizes[0:2] if ctx.tier == 'quick' else sizes[2:4]
    import random
    rng = random.Random('%s/merge-model/%s/%d' % (ctx.pid, ctx.tier, ctx.seed))
    mism = run_stream(ctx, vlib.Driver(), rng, n_nb, n_gen, combos)
    ctx.cov['merge_model_theorems'] = theorems
    report(ctx, mism, theorems)
