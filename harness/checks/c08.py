"""C08 merge command and git driver: exit status, output file, behaviour on failure.
Model: NbdimeModel/Cli.lean (+ Properties/C08.lean). Tie: the step list of main_merge /
_handle_agreed_deletion / the driver's output redirection are extracted from /repo by an AST walk on
every run and discharged against the shape predicate by `decide`; every single fault (I/O error,
MemoryError, KeyboardInterrupt, SIGKILL) is injected at every step boundary of the real commands and
the observed (exit status, output file) is compared with the model's prediction."""
import ast, concurrent.futures, copy, hashlib, json, os, subprocess, sys, tempfile
import vlib, gen_nb
from vlib import canon, plain
from checks import mergelib

THEOREMS = ['Nbdime.C08_no_fault', 'Nbdime.C08_untouched', 'Nbdime.C08_never_success_on_fault', 'Nbdime.C08_zero_iff',
            'Nbdime.C08_swallow_refuted']
LAUNCHER = os.path.join(vlib.VERIF, 'harness', 'c08_launcher.py')
SITES = [('read', 1), ('read', 2), ('read', 3), ('diff', 1), ('diff', 2), ('decide', 1), ('apply', 1), ('serialise', 1), ('open', 1), ('write', 1)]
KINDS = ['ioerror', 'memory', 'interrupt', 'kill']
STEP_OF_SITE = {'read': None, 'diff': 4, 'decide': 4, 'apply': 4, 'serialise': 6, 'open': 6, 'write': 7}


# ------------------------------------------------------------------ extraction
def _calls(node):
    return [ast.unparse(c.func) for c in ast.walk(node) if isinstance(c, ast.Call)]


def extract_steps(fn):
    """linearise the function along the path: inputs present, not the agreed-deletion case,
    not --decisions, an output file given"""
    steps = []

    def visit(stmts):
        for st in stmts:
            if isinstance(st, ast.If):
                t = ast.unparse(st.test)
                if 'decisions' in t:
                    visit(st.orelse)
                elif t in ('mfn', 'output_fn'):
                    visit(st.body)
                elif 'EXPLICIT_MISSING_FILE' in t and 'exists' in t:
                    steps.append('checkFiles')
                elif 'EXPLICIT_MISSING_FILE' in t or t == 'conflicted':
                    continue
                elif 'os.path.exists' in t:
                    visit(st.body)
                else:
                    visit(st.body)
                    visit(st.orelse)
            elif isinstance(st, ast.For):
                visit(st.body)
            elif isinstance(st, ast.Try):
                visit(st.body)
                if not all(any(isinstance(x, ast.Raise) for x in ast.walk(h)) for h in st.handlers):
                    steps.append('swallow')
                visit(st.orelse)
                visit(st.finalbody)
            elif isinstance(st, ast.With):
                visit(st.body)
            elif isinstance(st, ast.Return):
                v = st.value
                if isinstance(v, ast.Name):
                    steps.append('returnRc' if v.id == 'returncode' else 'returnVar:' + v.id)
                elif isinstance(v, ast.Constant):
                    steps.append('returnConst:%r' % v.value)
            else:
                if isinstance(st, ast.Assign) and ast.unparse(st.targets[0]) == 'returncode':
                    rhs = ast.unparse(st.value)
                    steps.append('computeRc' if rhs == '1 if conflicted else 0' else 'computeRc?:' + rhs)
                for c in _calls(st):
                    if c == 'read_notebook':
                        steps.append('read')
                    elif c == 'merge_notebooks':
                        steps.append('merge')
                    elif c == 'nbformat.write':
                        steps.extend(['openOut', 'writeOut'])
                    elif c in ('io.open', 'open') and 'mfn' in ast.unparse(st):
                        steps.extend(['openOut', 'writeOut'])
                    elif c == 'os.remove':
                        steps.append('removeOut')
    visit(fn.body)
    return steps


def extract():
    src = open(os.path.join(vlib.REPO, 'nbdime', 'nbmergeapp.py')).read()
    fns = {f.name: f for f in ast.parse(src).body if isinstance(f, ast.FunctionDef)}
    main = extract_steps(fns['main_merge'])
    dele = extract_steps(fns['_handle_agreed_deletion'])
    conflicted_def = [ast.unparse(s.value) for s in ast.walk(fns['main_merge']) if isinstance(s, ast.Assign) and ast.unparse(s.targets[0]) == 'conflicted']
    dsrc = open(os.path.join(vlib.REPO, 'nbdime', 'vcs', 'git', 'mergedriver.py')).read()
    dmain = [f for f in ast.parse(dsrc).body if isinstance(f, ast.FunctionDef) and f.name == 'main'][0]
    redirect = ['%s = %s' % (ast.unparse(s.targets[0]), ast.unparse(s.value)) for s in ast.walk(dmain) if isinstance(s, ast.Assign) and ast.unparse(s.targets[0]).startswith('opts.')]
    return {'main_merge': main, 'agreed_deletion': dele, 'conflicted': conflicted_def, 'driver_assignments': redirect}


def lean_step(s):
    if s.startswith('returnConst:'):
        return '(.returnConst %s)' % s.split(':')[1]
    if ':' in s or '?' in s:
        return '(.returnConst 99)'      # something the model has no word for: the shape obligation fails
    return '.' + s


def lean_obligation(ex):
    main = '[' + ', '.join(lean_step(s) for s in ex['main_merge']) + ']'
    dele = '[' + ', '.join(lean_step(s) for s in ex['agreed_deletion']) + ']'
    lines = ['import NbdimeProofs', 'open Nbdime Nbdime.Cli',
             'def extractedMain : List Step := ' + main,
             'def extractedDeletion : List Step := ' + dele,
             'example : okShape extractedMain = true := by decide',
             'example : noSwallow extractedDeletion = true := by decide',
             'example : extractedDeletion.contains .removeOut = true := by decide',
             '-- a failing removal is never reported as success',
             'example : (runSteps false (extractedDeletion ++ [.returnConst 0]) (some (firstIdx (· == .removeOut) extractedDeletion, .raise_)) .init).exit ≠ some 0 := by decide']
    return '\n'.join(lines) + '\n', 4


# ------------------------------------------------------------------ fault injection
def sha(path):
    return hashlib.sha1(open(path, 'rb').read()).hexdigest() if os.path.exists(path) else None


def run_case(td, idx, entry, files, strategy_args, site, nth, kind):
    d = os.path.join(td, 'c%d' % idx)
    os.makedirs(d)
    paths = {}
    for role in ('base', 'local', 'remote'):
        v = files[role]
        if v == 'missing':
            paths[role] = '/dev/null'
        else:
            paths[role] = os.path.join(d, role + '.ipynb')
            with open(paths[role], 'w') as f:
                f.write('' if v == 'empty' else json.dumps(v))
    if entry == 'driver':
        out = paths['local']
        argv = ['merge'] + strategy_args + [paths['base'], paths['local'], paths['remote'], '7', 'dest.ipynb']
    else:
        out = os.path.join(d, 'out.ipynb')
        open(out, 'w').write('SENTINEL previous content\n')
        argv = strategy_args + [paths['base'], paths['local'], paths['remote'], '--out', out]
    before = sha(out)
    spec = {'entry': entry, 'argv': argv, 'site': site, 'nth': nth, 'kind': kind, 'out': out if out != '/dev/null' else None}
    sp = os.path.join(d, 'spec.json')
    json.dump(spec, open(sp, 'w'))
    env = dict(os.environ, PYTHONPATH=vlib.REPO, JUPYTER_CONFIG_DIR=os.path.join(d, 'jcfg'))
    p = subprocess.run([sys.executable, LAUNCHER, sp], cwd=d, env=env, stdout=subprocess.PIPE, stderr=subprocess.PIPE, timeout=300)
    after = sha(out)
    content = None
    if after is not None and after != before:
        try:
            json.load(open(out))
            import nbformat
            content = plain(nbformat.read(out, as_version=4))
        except Exception:
            content = 'NOT-JSON'
    fired = 'injected' in p.stderr.decode('utf8', 'replace') or kind in ('interrupt', 'kill') and p.returncode != 0
    return {'rc': p.returncode, 'before': before, 'after': after, 'content': content, 'stderr': p.stderr.decode('utf8', 'replace')[-300:], 'out': out}


def library_merge(files, args):
    import nbformat
    from nbdime.utils import read_notebook
    def nb(v):
        if v in ('missing', 'empty'):
            return nbformat.v4.new_notebook()
        return nbformat.from_dict(copy.deepcopy(v))
    from nbdime.merging.notebooks import merge_notebooks
    merged, decisions = merge_notebooks(nb(files['base']), nb(files['local']), nb(files['remote']), args)
    return plain(merged), any(d.conflict for d in decisions)


def gen_files(rng):
    b, l, r, _ = gen_nb.triple(rng, minor=rng.choice([4, 5]))
    files = {'base': b, 'local': l, 'remote': r}
    k = rng.random()
    if k < 0.12:
        files['base'] = 'missing'          # added on both sides
    elif k < 0.2:
        files['base'] = 'empty'            # git gives an empty base file for double insertions
    elif k < 0.28:
        files['local'] = 'missing'
    elif k < 0.36:
        files['remote'] = 'missing'
    return files


def run(ctx):
    ctx.cov['rule'] = ('notebook triples (incl. /dev/null placeholders and empty base files) x strategy x entry point (nbmerge --out, '
                       'git-nbmergedriver) x one fault {I/O error, MemoryError, KeyboardInterrupt, SIGKILL} at each step boundary {read x3, diff x2, '
                       'decide, apply, serialise, open output, write} or none; non-trivial = a fault was injected or the merge has a conflict; '
                       'distinct by (triple, strategy, entry, fault)')
    vlib.audit(ctx, 'NbdimeProofs', THEOREMS)
    note = None
    try:
        ex = extract()
        src, n = lean_obligation(ex)
        ok, out = vlib.lean_run(src, 'C08_Tables.lean')
        ctx.cov['obligations'] += n + 2
        ctx.cov['extracted_steps'] = ex
        extra_ok = ex['conflicted'] == ['[d for d in decisions if d.conflict]'] and 'opts.out = opts.local' in ex['driver_assignments']
        if ok and extra_ok:
            ctx.cov['discharged'] += n + 2
        else:
            note = (out[-500:] if not ok else '') + ('' if extra_ok else ' rc/redirect shape: %r %r' % (ex['conflicted'], ex['driver_assignments']))
    except Exception as e:
        note = 'extractor failed: %r' % (e,)
    rng = ctx.rng
    ntriples = 5 if ctx.tier == 'quick' else 40
    jobs = []
    for t in range(ntriples):
        files = gen_files(rng)
        args = rng.choice(mergelib.all_combos()[:-2])
        entries = ['nbmerge', 'driver'] if files['local'] != 'missing' else ['nbmerge']
        for entry in entries:
            jobs.append((files, args, entry, None, 1, None))
            faults = [(s, n, k) for (s, n) in SITES for k in KINDS]
            if ctx.tier == 'quick':
                faults = rng.sample(faults, 9) + [('write', 1, rng.choice(KINDS)), ('open', 1, rng.choice(KINDS))]
            for s, n, k in faults:
                jobs.append((files, args, entry, s, n, k))
    # both deleted: agreed deletion, with and without a failing removal
    for _ in range(2 if ctx.tier == 'quick' else 10):
        files = gen_files(rng)
        files.update(local='missing', remote='missing')
        if files['base'] in ('missing', 'empty'):
            files['base'] = gen_nb.gen_notebook(rng)
        jobs.append((files, mergelib.Args(), 'nbmerge', None, 1, None))
        for k in KINDS:
            jobs.append((files, mergelib.Args(), 'nbmerge', 'remove', 1, k))
    with tempfile.TemporaryDirectory(prefix='verif-c08-') as td:
        with concurrent.futures.ThreadPoolExecutor(max_workers=14) as exr:
            results = list(exr.map(lambda ij: run_case(td, ij[0], ij[1][2], ij[1][0], ij[1][1].cli(), ij[1][3], ij[1][4], ij[1][5]), enumerate(jobs)))
    mism = []
    for (files, args, entry, site, nth, kind), r in zip(jobs, results):
        data = {'files': files, 'strategy': args.key(), 'entry': entry, 'fault': [site, nth, kind], 'observed': {k: r[k] for k in ('rc', 'before', 'after', 'stderr')}}
        both_deleted = files['local'] == 'missing' and files['remote'] == 'missing'
        ctx.count('entry:' + entry)
        ctx.count('fault:%s' % (site or 'none'))
        ctx.count('kind:%s' % (kind or 'none'))
        if both_deleted:
            ctx.count('agreed-deletion')
            ctx.case(json.dumps(data['fault']) + canon(files['base']), True)
            if site is None:
                if r['rc'] != 0 or r['after'] is not None:
                    ctx.violation('both sides deleted: expected exit 0 and the output removed, got rc=%s, output %s' % (r['rc'], 'present' if r['after'] else 'absent'), dict(data, kind='agreed-deletion'))
            else:
                if r['rc'] == 0:
                    ctx.violation('agreed deletion: removal of the output failed (%s) but the command reported success' % kind, dict(data, kind='success-on-fault'))
            continue
        try:
            lib_merged, lib_conflict = library_merge(files, args)
            lib_err = None
        except Exception as e:
            lib_merged, lib_conflict, lib_err = None, None, repr(e)
        ctx.case(json.dumps([entry, site, nth, kind, args.key()]) + canon(files), site is not None or bool(lib_conflict))
        if lib_err:
            continue
        known = mergelib.known_ids(*[v for v in files.values() if isinstance(v, dict)])
        # nbformat.read repairs duplicate cell ids when the output is read back: ids that occur twice in the
        # library result (both variants of a conflicting cell are kept) are not compared
        ids = [c.get('id') for c in (lib_merged or {}).get('cells', []) if isinstance(c.get('id'), str)]
        known = known - {i for i in ids if ids.count(i) > 1}
        # reading fewer than 3 real files: a fault at read k may not fire (placeholders are still "read")
        if site is None:
            want_rc = 1 if lib_conflict else 0
            if r['rc'] != want_rc:
                ctx.violation('%s exit status %s, expected %s (conflicts=%s)' % (entry, r['rc'], want_rc, lib_conflict), dict(data, kind='exit-status'))
            if r['content'] in (None, 'NOT-JSON'):
                ctx.violation('%s finished but the output is %s' % (entry, 'unchanged/absent' if r['content'] is None else 'not JSON'), dict(data, kind='output-missing'))
            else:
                got = r['content']
                # the output was read back through nbformat (which joins lines and repairs missing / duplicate ids):
                # put the library result through the same write/read cycle before comparing
                import nbformat
                lib_merged = plain(nbformat.reads(nbformat.writes(nbformat.from_dict(copy.deepcopy(lib_merged))), as_version=4))
                if canon(mergelib.mask_new_ids(got, known)) != canon(mergelib.mask_new_ids(lib_merged, known)):
                    ctx.violation('%s output differs from the library merge' % entry, dict(data, kind='output-differs'))
            pred = ('complete', want_rc)
            obs = ('complete' if r['content'] not in (None, 'NOT-JSON') else 'other', r['rc'])
        else:
            if r['rc'] == 0:
                ctx.violation('%s reported success although %s was injected at %s#%d' % (entry, kind, site, nth), dict(data, kind='success-on-fault'))
            if site != 'write' and r['after'] != r['before']:
                ctx.violation('%s: %s at %s#%d (before the result is written) changed the output location' % (entry, kind, site, nth), dict(data, kind='output-touched'))
            pred = ('untouched' if site != 'write' else 'partial', 'nonzero')
            obs = ('untouched' if r['after'] == r['before'] else 'partial', 'nonzero' if r['rc'] != 0 else 0)
        ctx.cov['traces_validated_against_impl'] += 1
        if pred != obs:
            mism.append(dict(data, predicted=pred, observed_class=obs))
    ctx.sample({'extracted_main_merge_steps': ctx.cov.get('extracted_steps', {}).get('main_merge')})
    ctx.cov['correspondence_mismatches'] = len(mism)
    if note and not ctx.violations:
        ctx.violation('generated obligation (extracted main_merge steps satisfy Cli.okShape) no longer checks: ' + note,
                      {'kind': 'obligation', 'theorem': 'gen/C08_Tables.lean', 'output': note}, found=False, classify=False)
    if mism and not ctx.violations:
        ctx.violation('correspondence Cli model <-> nbmerge under fault injection broken (%d); first: %s' % (len(mism), json.dumps(mism[0], default=repr)[:400]),
                      {'kind': 'correspondence', 'stream': 'C08 cli', 'first': mism[0]}, found=False, classify=False)


def replay(path):
    data = json.load(open(path))['data']
    if 'files' not in data:
        print(json.dumps(data)[:800])
        return 1
    with tempfile.TemporaryDirectory(prefix='verif-c08-') as td:
        a = mergelib.Args(*data['strategy'])
        r = run_case(td, 0, data['entry'], data['files'], a.cli(), *data['fault'])
    print('observed now:', {k: r[k] for k in ('rc', 'before', 'after')}, 'fault', data['fault'])
    return 1 if (data['fault'][0] and r['rc'] == 0) else 0
