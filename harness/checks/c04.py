"""C04 a merged notebook always validates against its declared notebook format.
Search/tie: the real merger on generated triples x strategies; the merged notebook is validated with
jsonschema against the nbformat schema of the minor version it declares, in memory and after writing
it with the merge command. Lean: decidable shape predicate for cells the merger synthesises
(NbdimeModel/NbShape.lean) tied to jsonschema by a correspondence run, and closure theorems."""
import copy, json, os, subprocess, sys, tempfile
import vlib, gen_nb
from vlib import enc, dec, canon, plain
from checks import mergelib

THEOREMS = ['Nbdime.C04_insert_valid', 'Nbdime.C04_remove_valid', 'Nbdime.C04_marker_cell_valid', 'Nbdime.C04_marker_cell_with_id_invalid_pre45']


@vlib.classifier('marker-id-pre45')
def _cls_marker(data, finding):
    """every schema error is an `id` on a cell of a notebook that declares minor < 5, and that cell is
    one the merge inserted as a conflict marker (markdown cell whose source is a marker span)"""
    if data.get('kind') != 'invalid' or data.get('minor', 5) >= 5:
        return False
    m = dec(data['merged'])
    bad = [c for c in m['cells'] if 'id' in c]
    ok = all(c['cell_type'] == 'markdown' and c['source'].startswith('<span style="color:red"><b>') for c in bad)
    rest = copy.deepcopy(m)
    for c in rest['cells']:
        c.pop('id', None)
    return bool(bad) and ok and not gen_nb.schema_errors(rest)


@vlib.classifier('takemax-minor')
def _cls_minor(data, finding):
    """the three inputs declare different minors, the merge took the maximum (>= 5), and the only
    errors are missing ids on cells that came from a pre-4.5 side"""
    if data.get('kind') != 'invalid' or len(set(data.get('minors', []))) < 2 or data.get('minor', 0) < 5:
        return False
    m = dec(data['merged'])
    rest = copy.deepcopy(m)
    n = 0
    for c in rest['cells']:
        if 'id' not in c:
            n += 1
            c['id'] = 'verif%03d' % n
    return n > 0 and not gen_nb.schema_errors(rest)


@vlib.classifier('attachment-level')
def _cls_attach(data, finding):
    """the only schema errors are LOCAL_<mime> / REMOTE_<mime> entries with non-bundle values placed directly in
    a cell's attachments (a conflict on a mime type inside one attachment was treated as a conflict on a file name)"""
    if data.get('kind') != 'invalid':
        return False
    m = dec(data['merged'])
    hit = False
    for c in m['cells']:
        at = c.get('attachments')
        if isinstance(at, dict):
            for k in list(at):
                if k.startswith(('LOCAL_', 'REMOTE_')) and not isinstance(at[k], dict):
                    del at[k]
                    hit = True
    return hit and not gen_nb.schema_errors(m)


def check_merge(ctx, b, l, r, a, md, kinds):
    with mergelib.renderer(md):
        res = mergelib.run_merge(b, l, r, a)
    if res[0] != 'ok':
        return
    merged, decisions = res[1], res[2]
    conflicts = [d for d in decisions if d.get('conflict')]
    ctx.count('conflicted' if conflicts else 'clean')
    ctx.count('minor:%s' % merged.get('nbformat_minor'))
    ctx.case(canon(b) + canon(l) + canon(r) + json.dumps(a.key()), bool(decisions))
    errs = gen_nb.schema_errors(merged)
    if errs:
        ctx.violation('merged notebook (declares 4.%s) is not schema-valid under %s: %s' % (merged.get('nbformat_minor'), a.key(), errs[:2]),
                      {'kind': 'invalid', 'b': enc(b), 'l': enc(l), 'r': enc(r), 'strategy': a.key(), 'helper': md, 'merged': enc(merged),
                       'minor': merged.get('nbformat_minor'), 'minors': [x['nbformat_minor'] for x in (b, l, r)], 'errors': errs, 'scenario': kinds})
    elif conflicts and len(ctx.cov['samples']) < 2:
        ctx.sample({'strategy': a.key(), 'scenario': kinds, 'conflicts': len(conflicts), 'merged_minor': merged.get('nbformat_minor')})


def cli_leg(ctx, n):
    rng = ctx.rng
    env = dict(os.environ, PYTHONPATH=vlib.REPO)
    with tempfile.TemporaryDirectory(prefix='verif-c04-') as td:
        for i in range(n):
            b, l, r, kinds = gen_nb.triple_scenario(rng, minor=rng.choice([5, 5, 4]))
            a = rng.choice(mergelib.all_combos()[:-2])
            ps = []
            for name, nb in (('b', b), ('l', l), ('r', r)):
                p = os.path.join(td, '%s%d.ipynb' % (name, i))
                json.dump(nb, open(p, 'w'))
                ps.append(p)
            out = os.path.join(td, 'm%d.ipynb' % i)
            p = subprocess.run([sys.executable, '-m', 'nbdime.nbmergeapp'] + a.cli() + ps + ['--out', out], env=env, cwd=td, stdout=subprocess.PIPE, stderr=subprocess.PIPE)
            ctx.count('cli')
            ctx.case('cli%d' % i + canon(b) + canon(l) + canon(r), True)
            if p.returncode not in (0, 1) or not os.path.exists(out):
                continue
            import nbformat
            try:
                nbformat.validate(nbformat.read(out, as_version=nbformat.NO_CONVERT))
            except Exception as e:
                m = json.load(open(out))
                ctx.violation('the file written by nbmerge fails nbformat validation: %s' % str(e)[:150],
                              {'kind': 'invalid', 'b': enc(b), 'l': enc(l), 'r': enc(r), 'strategy': a.key(), 'merged': enc(plain(nbformat.read(out, as_version=4))),
                               'minor': m.get('nbformat_minor'), 'minors': [x['nbformat_minor'] for x in (b, l, r)], 'leg': 'cli'})


def run(ctx):
    ctx.cov['rule'] = ('as C03 (triples incl. targeted conflict scenarios of every kind x strategy combinations x text-merge helpers) with bases of every '
                       'minor version and inputs whose minors differ; the merged notebook is validated against the nbformat schema of the minor it declares; '
                       'plus the file written by `nbmerge --out`; non-trivial = at least one decision; distinct by (triple, strategy)')
    vlib.audit(ctx, 'NbdimeProofs', THEOREMS)
    from checks import nbshape
    nbshape.correspondence(ctx, 120 if ctx.tier == 'quick' else 2000)
    rng = ctx.rng
    ntriples = 140 if ctx.tier == 'quick' else 1500
    combos = mergelib.all_combos()
    for t in range(ntriples):
        b, l, r, kinds = gen_nb.any_triple(rng, minor_change=rng.random() < 0.3)
        chosen = [mergelib.Args('inline')] + rng.sample(combos, 1 if ctx.tier == 'quick' else 25)
        for a in chosen:
            check_merge(ctx, b, l, r, a, mergelib.RENDERERS[t % 3], kinds)
    cli_leg(ctx, 4 if ctx.tier == 'quick' else 60)


def replay(path):
    data = json.load(open(path))['data']
    ctx = vlib.Ctx('C04', 'quick', 0)
    if 'b' in data:
        check_merge(ctx, dec(data['b']), dec(data['l']), dec(data['r']), mergelib.Args(*data['strategy']), data.get('helper', 'git'), ['replay'])
    for what, p, found in ctx.violations:
        print('REPRODUCED:', what[:300])
    for k in ctx.known:
        print('KNOWN-FINDING (reproduced):', k['tag'])
    return 1 if (ctx.violations or ctx.known) else 0
