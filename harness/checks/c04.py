"""C04 a merged notebook always validates against its declared notebook format.
Search/tie: the real merger on generated triples x strategies; the merged notebook is validated with
jsonschema against the nbformat schema of the minor version it declares, in memory and after writing
it with the merge command. Lean: decidable shape predicate for cells the merger synthesises
(NbdimeModel/NbShape.lean) tied to jsonschema by a correspondence run, and closure theorems."""
import copy, json, os, subprocess, sys, tempfile
import vlib, gen_nb
from vlib import enc, dec, canon, plain
from checks import mergelib

THEOREMS = ['Nbdime.C04_insert_valid', 'Nbdime.C04_remove_valid', 'Nbdime.C04_marker_cell_valid', 'Nbdime.C04_marker_cell_with_id_invalid_pre45', 'Nbdime.C04_model_cells_valid']


def repair_known(m, minors):
    """undo, on a copy, exactly the recorded defects; returns (repaired notebook, tags that applied)"""
    m = copy.deepcopy(m)
    tags = []
    minor = m.get('nbformat_minor', 0)
    for c in m.get('cells', []):
        if minor < 5 and 'id' in c and c.get('cell_type') == 'markdown' and str(c.get('source', '')).startswith('<span style="color:red"><b>'):
            del c['id']
            tags.append('F-markerid')
        at = c.get('attachments')
        if isinstance(at, dict):
            for k in list(at):
                if k.startswith(('LOCAL_', 'REMOTE_')) and not isinstance(at[k], dict):
                    del at[k]
                    tags.append('F-attach-level')
    if minor < 5 and len(set(minors)) > 1 and max(minors) >= 5:
        for c in m.get('cells', []):
            if 'id' in c and not (c.get('cell_type') == 'markdown' and str(c.get('source', '')).startswith('<span style="color:red"><b>')):
                del c['id']
                tags.append('F-minor-lowered')
    if minor >= 5 and len(set(minors)) > 1:
        n = 0
        for c in m.get('cells', []):
            if 'id' not in c:
                n += 1
                c['id'] = 'verif%03d' % n
                tags.append('F-minor')
    return m, sorted(set(tags))


def _known(tag):
    def f(data, finding):
        return data.get('kind') == 'invalid' and tag in data.get('repairs', []) and data.get('residual_valid') is True
    return f


vlib.classifier('marker-id-pre45')(_known('F-markerid'))
vlib.classifier('takemax-minor')(_known('F-minor'))


def expected_minor(minors):
    """what the documented rule gives: a one-sided change is adopted, a two-sided one takes the maximum"""
    b, l, r = minors
    if l == b:
        return r
    if r == b or l == r:
        return l
    return max(b, l, r)


@vlib.classifier('minor-lowered')
def _cls_minor_lowered(data, finding):
    # only while the declared minor is the one the documented rule gives (a different one is a new violation)
    return _known('F-minor-lowered')(data, finding) and data.get('minor') == expected_minor(data.get('minors', [0, 0, 0]))
vlib.classifier('attachment-level')(_known('F-attach-level'))


def check_merge(ctx, b, l, r, a, md, kinds):
    with mergelib.renderer(md):
        res = mergelib.run_merge(b, l, r, a)
    if res[0] != 'ok':
        return
    merged, decisions = res[1], res[2]
    conflicts = [d for d in decisions if d.get('conflict')]
    ctx.count('conflicted' if conflicts else 'clean')
    ctx.count('minor:%s' % merged.get('nbformat_minor'))
    ctx.case(canon(b) + canon(l) + canon(r) + json.dumps(a.key()), bool(decisions))
    errs = gen_nb.schema_errors(merged)
    if errs:
        minors = [x['nbformat_minor'] for x in (b, l, r)]
        repaired, tags = repair_known(merged, minors)
        data = {'kind': 'invalid', 'b': enc(b), 'l': enc(l), 'r': enc(r), 'strategy': a.key(), 'helper': md, 'merged': enc(merged),
                'minor': merged.get('nbformat_minor'), 'minors': minors, 'errors': errs, 'scenario': kinds,
                'repairs': tags, 'residual_valid': bool(tags) and not gen_nb.schema_errors(repaired)}
        what = 'merged notebook (declares 4.%s) is not schema-valid under %s: %s' % (merged.get('nbformat_minor'), a.key(), errs[:2])
        if data['residual_valid']:
            for tag in tags:      # one report per recorded defect that is present
                ctx.violation(what, dict(data, repairs=[tag]))
        else:
            ctx.violation(what, data)
    elif conflicts and len(ctx.cov['samples']) < 2:
        ctx.sample({'strategy': a.key(), 'scenario': kinds, 'conflicts': len(conflicts), 'merged_minor': merged.get('nbformat_minor')})


def cli_leg(ctx, n):
    rng = ctx.rng
    env = dict(os.environ, PYTHONPATH=vlib.REPO)
    with tempfile.TemporaryDirectory(prefix='verif-c04-') as td:
        for i in range(n):
            b, l, r, kinds = gen_nb.triple_scenario(rng, minor=rng.choice([5, 5, 4]))
            a = rng.choice(mergelib.all_combos()[:-2])
            ps = []
            for name, nb in (('b', b), ('l', l), ('r', r)):
                p = os.path.join(td, '%s%d.ipynb' % (name, i))
                json.dump(nb, open(p, 'w'))
                ps.append(p)
            out = os.path.join(td, 'm%d.ipynb' % i)
            p = subprocess.run([sys.executable, '-m', 'nbdime.nbmergeapp'] + a.cli() + ps + ['--out', out], env=env, cwd=td, stdout=subprocess.PIPE, stderr=subprocess.PIPE)
            ctx.count('cli')
            ctx.case('cli%d' % i + canon(b) + canon(l) + canon(r), True)
            if p.returncode not in (0, 1) or not os.path.exists(out):
                continue
            import nbformat
            try:
                nbformat.validate(nbformat.read(out, as_version=nbformat.NO_CONVERT))
            except Exception as e:
                m = json.load(open(out))
                mm = plain(nbformat.read(out, as_version=nbformat.NO_CONVERT))
                minors = [x['nbformat_minor'] for x in (b, l, r)]
                repaired, tags = repair_known(mm, minors)
                data = {'kind': 'invalid', 'b': enc(b), 'l': enc(l), 'r': enc(r), 'strategy': a.key(), 'merged': enc(mm), 'minor': m.get('nbformat_minor'),
                        'minors': minors, 'leg': 'cli', 'repairs': tags, 'residual_valid': bool(tags) and not gen_nb.schema_errors(repaired)}
                what = 'the file written by nbmerge fails nbformat validation: %s' % str(e)[:150]
                if data['residual_valid']:
                    for tag in tags:
                        ctx.violation(what, dict(data, repairs=[tag]))
                else:
                    ctx.violation(what, data)


def run(ctx):
    ctx.cov['rule'] = ('as C03 (triples incl. targeted conflict scenarios of every kind x strategy combinations x text-merge helpers) with bases of every '
                       'minor version and inputs whose minors differ; the merged notebook is validated against the nbformat schema of the minor it declares; '
                       'plus the file written by `nbmerge --out`; non-trivial = at least one decision; distinct by (triple, strategy)')
    vlib.audit(ctx, 'NbdimeProofs', THEOREMS)
    from checks import nbshape
    nbshape.correspondence(ctx, 120 if ctx.tier == 'quick' else 2000)
    rng = ctx.rng
    ntriples = 260 if ctx.tier == 'quick' else 2000
    combos = mergelib.all_combos()
    for t in range(ntriples):
        b, l, r, kinds = gen_nb.any_triple(rng, minor_change=rng.random() < 0.3)
        chosen = [mergelib.Args('inline')] + rng.sample(combos, 1 if ctx.tier == 'quick' else 25)
        for a in chosen:
            check_merge(ctx, b, l, r, a, mergelib.RENDERERS[t % 3], kinds)
    # three different format minors x whole-notebook use-* strategies (the minor is conflicted, a side is picked)
    for t in range(12 if ctx.tier == 'quick' else 150):
        b, l, r, kinds = gen_nb.triple_scenario(rng, minor=rng.choice([2, 3, 4]), first='minor')
        minors = rng.sample(range(0, 6), 3)
        used = gen_nb.used_ids(b) | gen_nb.used_ids(l) | gen_nb.used_ids(r)
        for nb, m in zip((b, l, r), minors):
            nb['nbformat_minor'] = m
            for c in nb['cells']:
                if m >= 5:
                    c.setdefault('id', gen_nb.new_id(rng, used))
                else:
                    c.pop('id', None)
        if not all(gen_nb.is_valid(nb) for nb in (b, l, r)):
            continue
        ctx.count('three-minors x use-*')
        check_merge(ctx, b, l, r, mergelib.Args(rng.choice(['use-base', 'use-local', 'use-remote'])), mergelib.RENDERERS[t % 3], kinds + ['three-minors'])
    cli_leg(ctx, 4 if ctx.tier == 'quick' else 60)


def replay(path):
    data = json.load(open(path))['data']
    ctx = vlib.Ctx('C04', 'quick', 0)
    if 'b' in data:
        check_merge(ctx, dec(data['b']), dec(data['l']), dec(data['r']), mergelib.Args(*data['strategy']), data.get('helper', 'git'), ['replay'])
    for what, p, found in ctx.violations:
        print('REPRODUCED:', what[:300])
    for k in ctx.known:
        print('KNOWN-FINDING (reproduced):', k['tag'])
    return 1 if (ctx.violations or ctx.known) else 0
