"""C11 every produced diff is well-formed for its base document and the diff schema.
The decidable WF predicate of the Lean model (NbdimeModel.WF) is run by the driver on every diff
the implementation produces (generic differ, notebook differ, diffs embedded in merge decisions);
jsonschema against the repository's diff_format.schema.json; JSON round trip."""
import copy, json, os
import jsonschema
import vlib, gen_json, gen_nb
from vlib import enc, dec, enc_diff, canon, plain
from checks import c01, c02

THEOREMS = ['Nbdime.C11_model_keywise_decisions_wf', 'Nbdime.C11_model_cells_decisions_wf', 'Nbdime.C11_model_mixed_decisions_wf', 'Nbdime.C11_notebook_wf', 'Nbdime.diffAt_wf', 'Nbdime.C11_generic_wf', 'Nbdime.diffAt_generic_wf', 'Nbdime.C11_wf_shallow_list', 'Nbdime.wfList_dfl', 'Nbdime.diffFromLcs_eq_dfl', 'Nbdime.lcsBack_matching']


def schema_validator():
    schema = json.load(open(os.path.join(vlib.REPO, 'nbdime', 'diff_format.schema.json')))
    return jsonschema.Draft4Validator(schema)


@vlib.classifier('attachment-level-diff')
def _cls_attachment_level(data, finding):
    """a decision diff on an attachments dict whose entries all name mime types of its attachments (one level too high)"""
    if data.get('kind') != 'not-wf' or not str(data.get('origin', '')).startswith('decision.'):
        return False
    try:
        doc = vlib.dec(data['doc'])
    except Exception:
        return False
    raw = data.get('raw') or []
    if not isinstance(doc, dict) or not doc or not raw:
        return False
    if not all(isinstance(v, dict) and v and all('/' in k for k in v) for v in doc.values()):
        return False
    return all(isinstance(e, dict) and isinstance(e.get('key'), str) and '/' in e['key'] and e['key'] not in doc
               and any(e['key'] in v for v in doc.values()) for e in raw)


@vlib.classifier('collected-diff-levels')
def _cls_collected_levels(data, finding):
    """local / remote diff of the custom decision the clear-all / remove output strategies put on an outputs list"""
    m = data.get('meta') or {}
    return (data.get('kind') == 'not-wf' and data.get('origin') in ('decision.local_diff', 'decision.remote_diff')
            and m.get('action') == 'custom' and (m.get('strategy') or [None] * 3)[2] in finding['param']['output_strategy']
            and (m.get('path') or [None])[-1] == 'outputs')


def collect(ctx):
    """(origin, base document, diff) triples produced by the implementation"""
    rng = ctx.rng
    out = []
    n_gen = 600 if ctx.tier == 'quick' else 8000
    for _ in range(n_gen):
        a, b = gen_json.pair(rng, alias=rng.random() < 0.1)
        r, _ = c02.impl_diff(a, b)
        if r[0] == 'ok':
            out.append(('generic', a, r[1]))
    n_nb = 150 if ctx.tier == 'quick' else 2500
    for _ in range(n_nb):
        a, b, kinds = gen_nb.pair(rng)
        r, _ = c01.impl_diffnb(a, b)
        if r[0] == 'ok':
            out.append(('notebook', a, r[1]))
    try:
        from checks import mergelib
        n_m = 330 if ctx.tier == 'quick' else 3300
        scen = sorted(set(gen_nb.SCENARIOS))
        for i in range(n_m):
            # one merge in three from random edit scripts, the others from the conflict scenarios in rotation
            out.extend(mergelib.decision_diffs(rng, first=None if i % 3 == 0 else scen[(i // 3 * 2 + i % 3) % len(scen)]))
    except ImportError:
        ctx.assumptions.append('merge decision diffs not yet collected (mergelib missing)')
    return out


def relax_decision_diff(d):
    """the diffs a strategy bundles into a custom decision are concatenations of the bundled decisions' diffs: several
    insertions at one position stand for one insertion of the concatenated items, and `clear_all` on an empty list is a
    removal of zero items. Neither contradicts the property (ordered by position, no overlap, within bounds); the
    stricter normal form (one insertion per position, removals of at least one item) is what the differ theorems
    prove and is demanded of differ output only."""
    out = []
    for e in d:
        e = dict(e)
        if e.get('op') == 'patch' and isinstance(e.get('diff'), list):
            e['diff'] = relax_decision_diff(e['diff'])
        if e.get('op') == 'removerange' and e.get('length') == 0:
            continue
        if (e.get('op') == 'addrange' and out and out[-1].get('op') == 'addrange' and out[-1].get('key') == e.get('key')
                and type(out[-1].get('valuelist')) is type(e.get('valuelist'))):
            out[-1] = dict(out[-1], valuelist=out[-1]['valuelist'] + e['valuelist'])
            continue
        out.append(e)
    return out


def check(ctx, items):
    drv = vlib.Driver()
    val = schema_validator()
    def for_wf(o, d):
        if str(o).startswith('decision.'):
            r = relax_decision_diff(d)
            if r != d:
                ctx.count('decision diff normalised (insertion runs / zero-length removal)')
            return r
        return d
    replies = drv.run([{'cmd': 'wfchars' if o.endswith('.line') else 'wf', 'doc': enc(doc), 'diff': enc_diff(for_wf(o, d))} for o, doc, d in items])
    for (origin, doc, d), rep in zip(items, replies):
        ctx.count('origin:' + origin)
        ctx.count('ops:%d' % min(len(d), 6))
        ctx.case(canon(doc) + vlib.canon_diff(d), bool(d))
        base = {'doc': enc(doc), 'diff': enc_diff(d), 'origin': str(origin), 'raw': d, 'meta': getattr(origin, 'meta', None)}
        if len(json.dumps(d)) < 600 and d:
            ctx.sample({'origin': origin, 'diff': d}, limit=4)
        if rep.get('ok') is not True:
            ctx.violation('%s diff is not well-formed for its base document' % origin, dict(base, kind='not-wf'))
        errs = [e.message[:200] for e in val.iter_errors(d)][:3]
        if errs:
            ctx.violation('%s diff violates diff_format.schema.json: %s' % (origin, errs), dict(base, kind='schema'))
        try:
            back = json.loads(json.dumps(d))
            if back != d or json.dumps(back, sort_keys=True) != json.dumps(d, sort_keys=True):
                ctx.violation('%s diff does not survive a JSON round trip' % origin, dict(base, kind='json-roundtrip'))
        except (TypeError, ValueError) as e:
            ctx.violation('%s diff is not JSON serialisable: %s' % (origin, e), dict(base, kind='json-roundtrip'))
        ctx.cov['traces_validated_against_impl'] += 1


def model_tie(ctx):
    """C11_generic_wf / C11_notebook_wf are theorems about the model's differ: (a) per-run obligation: the live differ tables
    satisfy cfgSoundB and the notebook theorem is instantiated with them; (b) correspondence: the model's differ returns the
    diff the implementation returns (same recorded oracle answers) on a sample of generic and notebook pairs"""
    import nbcfg
    note = None
    try:
        cfg = nbcfg.extract_cfg()
        src = ('import NbdimeProofs\nopen Nbdime\n'
               'def liveCfg : Cfg := %s\n'
               'example : cfgSoundB liveCfg = true := by decide +kernel\n'
               'example (O : Oracle) (hO : OracleOK O) (a b : J) (d : List Op) (ca : a.canonical = true) (cb : b.canonical = true)\n'
               '    (hab : Compat a b) (h : diffNotebooks O liveCfg a b = .ok d) : wf a d = true :=\n'
               '  C11_notebook_wf O hO liveCfg (by decide +kernel) a b d ca cb hab h\n' % c01.lean_cfg(cfg))
        ok, out = vlib.lean_run(src, 'C11_Tables.lean')
        ctx.cov['obligations'] += 2
        if ok:
            ctx.cov['discharged'] += 2
        else:
            note = out[-500:]
    except Exception as e:
        cfg, note = None, 'extraction of the differ tables failed: %r' % (e,)
    rng = ctx.rng
    reqs, want, memos = [], [], []
    for _ in range(150 if ctx.tier == 'quick' else 2000):
        a, b = gen_json.pair(rng, alias=False)
        (r, memo) = c02.impl_diff(a, b)
        if r[0] == 'ok':
            reqs.append({'cmd': 'diff', 'a': enc(a), 'b': enc(b), 'memo': memo.to_json()})
            want.append(enc_diff(r[1]))
            memos.append((memo, {'a': enc(a), 'b': enc(b)}))
    if cfg is not None:
        for _ in range(40 if ctx.tier == 'quick' else 600):
            a, b, kinds = gen_nb.pair(rng)
            (r, memo) = c01.impl_diffnb(a, b)
            if r[0] == 'ok':
                reqs.append({'cmd': 'diffnb', 'a': enc(a), 'b': enc(b), 'memo': memo.to_json(), 'cfg': cfg})
                want.append(enc_diff(r[1]))
                memos.append((memo, {'a': enc(a), 'b': enc(b)}))
    drv = vlib.Driver()
    mism = []
    for rq, w, rep in zip(reqs, want, drv.run(reqs) if reqs else []):
        ctx.cov['traces_validated_against_impl'] += 1
        ctx.count('model-differ:' + rq['cmd'])
        if 'ok' not in rep or json.dumps(rep['ok'], sort_keys=True) != json.dumps(w, sort_keys=True):
            mism.append({'cmd': rq['cmd'], 'a': rq['a'], 'b': rq['b'], 'impl': w, 'model': rep})
    vlib.check_oracle_hypothesis(ctx, drv, memos)
    ctx.cov['correspondence_mismatches'] = len(mism)
    if note and not ctx.violations:
        ctx.violation('generated obligation (live differ tables satisfy cfgSoundB; C11_notebook_wf instantiated) no longer checks: ' + note,
                      {'kind': 'obligation', 'theorem': 'gen/C11_Tables.lean', 'output': note}, found=False, classify=False)
    if mism and not ctx.violations:
        ctx.violation('the model differ (theorems C11_generic_wf / C11_notebook_wf) and the implementation return different diffs on %d pair(s)' % len(mism),
                      {'kind': 'correspondence', 'stream': 'C11 model differ', 'first': mism[0]}, found=False, classify=False)


def run(ctx):
    ctx.cov['rule'] = ('every diff returned by nbdime.diff (generic pairs), diff_notebooks (notebook pairs) and every '
                       'local/remote/custom diff inside merge decisions; non-trivial = non-empty diff; distinct by (base, diff)')
    vlib.audit(ctx, 'NbdimeProofs', THEOREMS)
    check(ctx, collect(ctx))
    model_tie(ctx)


def replay(path):
    data = json.load(open(path))['data']
    if data.get('kind') in ('obligation', 'correspondence'):
        print(json.dumps(data)[:1500])
        return 1
    ctx = vlib.Ctx('C11', 'quick', 0)
    check(ctx, [(data.get('origin', 'replay'), dec(data['doc']), data['raw'])])
    for what, p, found in ctx.violations:
        print('REPRODUCED:', what[:300])
    return 1 if ctx.violations else 0
