"""C14 ignore options hide exactly the ignored categories and nothing else.
Specification (inCat) written from the CLI help text; the differ tables for all 64 subsets are
extracted from the live code on every run and (a) checked by a generated Lean `decide` obligation
against the category table, (b) handed to the Lean model for the correspondence run."""
import copy, io, itertools, json, os, tempfile
import vlib, gen_nb, nbcfg
from vlib import enc, dec, enc_diff, canon, plain
from checks import c01, c02

THEOREMS = c02.THEOREMS + ['Nbdime.C14_ignore_hides', 'Nbdime.C14_filter_hides', 'Nbdime.C14_tables_sound']
CATS = ['sources', 'outputs', 'attachments', 'metadata', 'id', 'details']
FLAG = {'sources': 's', 'outputs': 'o', 'attachments': 'a', 'metadata': 'm', 'id': 'i', 'details': 'd'}
CAT_PATHS = {
    'sources': ['/cells/*/source'],
    'outputs': ['/cells/*/outputs'],
    'attachments': ['/cells/*/attachments'],
    'metadata': ['/metadata', '/cells/*/metadata', '/cells/*/outputs/*/metadata'],
    'id': ['/cells/*/id'],
    'details': ['/cells/*/execution_count', '/cells/*/outputs/*/execution_count'],
}


def in_cat(ignored, path):
    for c in ignored:
        for p in CAT_PATHS[c]:
            if path == p or path.startswith(p + '/'):
                return c
    return None


def op_paths(d, path=''):
    """(path, op) for every entry of a nested diff; integer keys become '*'"""
    for e in d:
        k = e['key']
        p = path + '/' + (k if isinstance(k, str) else '*')
        yield p, e
        if e['op'] == 'patch':
            yield from op_paths(e['diff'], p)


def mask(nb, ignored):
    nb = copy.deepcopy(nb)
    if 'metadata' in ignored:
        nb.pop('metadata', None)
    for c in nb.get('cells', []):
        if 'sources' in ignored:
            c.pop('source', None)
        if 'attachments' in ignored:
            c.pop('attachments', None)
        if 'metadata' in ignored:
            c.pop('metadata', None)
        if 'id' in ignored:
            c.pop('id', None)
        if 'details' in ignored:
            c.pop('execution_count', None)
        if 'outputs' in ignored:
            c.pop('outputs', None)
        for o in c.get('outputs', []):
            if 'metadata' in ignored:
                o.pop('metadata', None)
            if 'details' in ignored:
                o.pop('execution_count', None)
    return nb


ALL_PATHS = [(c, p) for c in CATS for p in CAT_PATHS[c]]


def in_paths(paths, path):
    for c, p in ALL_PATHS:
        if p in paths and (path == p or path.startswith(p + '/')):
            return c
    return None


def mask_paths(nb, paths):
    nb = copy.deepcopy(nb)
    for p in paths:
        parts = p.strip('/').split('/')
        if parts == ['metadata']:
            nb.pop('metadata', None)
        elif len(parts) == 3:
            for c in nb.get('cells', []):
                c.pop(parts[2], None)
        elif len(parts) == 5:
            for c in nb.get('cells', []):
                for o in c.get('outputs', []):
                    o.pop(parts[4], None)
    return nb


def prop_paths(paths, mode):
    """the Ignore mapping naming individual paths (not whole categories): nothing at or below an ignored path is
    reported, and the patched notebook equals the target outside the ignored paths"""
    def check(ctx, a, b, d, m_patch, base):
        base = dict(base, ignored_paths=list(paths), mode=mode)
        leaks = []
        for p, e in op_paths(d):
            c = in_paths(paths, p)
            if c is not None and not any(p.startswith(q + '/') for q, _ in leaks):
                leaks.append((p, e))
                ctx.violation('diff reports %s at %s although the Ignore mapping names %s (%s)'
                              % (e['op'], p, [q for q in paths if p == q or p.startswith(q + '/')], mode),
                              dict(base, kind='leak', leak_path=p, leak_op=e['op'], category=c, diff=enc_diff(d)))
        if 'ok' not in m_patch:
            ctx.violation('independent patcher rejects the diff: %s' % m_patch, dict(base, kind='model-patch-rejects', diff=enc_diff(d)))
        elif canon(mask_paths(dec(m_patch['ok']), paths)) != canon(mask_paths(b, paths)):
            ctx.violation('patched notebook differs from the target outside the ignored paths %s (%s)' % (paths, mode),
                          dict(base, kind='unfaithful', diff=enc_diff(d), got=m_patch['ok']))
    return check


def ignore_mapping(ignored):
    m = {}
    for c in ignored:
        if c == 'details':
            m['/cells/*'] = ['execution_count']
            m['/cells/*/outputs/*'] = ['execution_count']
        else:
            for p in CAT_PATHS[c]:
                m[p] = True
    return m


CELL_KEYS = {'sources': 'source', 'outputs': 'outputs', 'attachments': 'attachments', 'metadata': 'metadata', 'id': 'id',
             'details': 'execution_count'}


def keys_mapping(ignored):
    """the same subset expressed with key lists (the third form the Ignore mapping accepts)"""
    m = {}
    cellkeys = [CELL_KEYS[c] for c in ignored]
    if cellkeys:
        m['/cells/*'] = cellkeys
    outkeys = [k for c, k in (('metadata', 'metadata'), ('details', 'execution_count')) if c in ignored]
    if outkeys and 'outputs' not in ignored:
        m['/cells/*/outputs/*'] = outkeys
    if 'metadata' in ignored:
        m['/metadata'] = True
    return m


class Configured:
    """configure the differ through the real nbdiff argument/config glue, in-process"""
    def __init__(self, mode, ignored):
        self.mode, self.ignored = mode, ignored

    def __enter__(self):
        import nbdime.nbdiffapp as app
        from nbdime.args import process_diff_flags
        from nbdime.diffing.notebooks import reset_notebook_differ
        reset_notebook_differ()
        self.td = tempfile.TemporaryDirectory(prefix='verif-c14-')
        self.cwd = os.getcwd()
        self.env = {k: os.environ.get(k) for k in ('JUPYTER_CONFIG_DIR', 'JUPYTER_CONFIG_PATH', 'JUPYTER_NO_CONFIG')}
        os.makedirs(os.path.join(self.td.name, 'cfg'))
        os.environ['JUPYTER_CONFIG_DIR'] = os.path.join(self.td.name, 'cfg')
        os.environ.pop('JUPYTER_CONFIG_PATH', None)
        os.chdir(self.td.name)
        argv = []
        ign = self.ignored
        if self.mode == 'neg':
            argv = ['-' + FLAG[c].upper() if i % 2 else '--ignore-' + c for i, c in enumerate(ign)]
        elif self.mode == 'pos':
            argv = ['-' + FLAG[c] if i % 2 else '--' + c for i, c in enumerate(c for c in CATS if c not in ign)]
        elif self.mode == 'cfg-bool':
            json.dump({'NbDiff': {c: False for c in ign}}, open('nbdime_config.json', 'w'))
        elif self.mode == 'cfg-map':
            json.dump({'NbDiff': {'Ignore': ignore_mapping(ign)}}, open('nbdime_config.json', 'w'))
        elif self.mode == 'cfg-paths':
            json.dump({'NbDiff': {'Ignore': {p: True for p in ign}}}, open('nbdime_config.json', 'w'))
        elif self.mode == 'cfg-keys':
            json.dump({'NbDiff': {'Ignore': keys_mapping(ign)}}, open('nbdime_config.json', 'w'))
        elif self.mode == 'keys+D':
            # key lists from the configuration file composed with the --ignore-details flag
            json.dump({'NbDiff': {'Ignore': keys_mapping([c for c in ign if c != 'details'])}}, open('nbdime_config.json', 'w'))
            argv = ['-D']
        args = app._build_arg_parser('nbdiff').parse_args(argv + ['a.ipynb', 'b.ipynb'])
        process_diff_flags(args)
        return self

    def __exit__(self, *exc):
        from nbdime.diffing.notebooks import reset_notebook_differ
        reset_notebook_differ()
        os.chdir(self.cwd)
        for k, v in self.env.items():
            if v is None:
                os.environ.pop(k, None)
            else:
                os.environ[k] = v
        self.td.cleanup()


def modes_for(ignored):
    m = ['cfg-map', 'cfg-keys']
    if 'details' in ignored and 'metadata' not in ignored and len(ignored) > 1:
        m.append('keys+D')
    if ignored:
        m += ['neg', 'cfg-bool']
    if len(ignored) < len(CATS):
        m.append('pos')
    return m


def edit_only_ignored(rng, nb, ignored):
    """a copy of nb that differs only inside ignored categories"""
    b = copy.deepcopy(nb)
    used = gen_nb.used_ids(b)
    if 'metadata' in ignored and rng.random() < 0.5:
        b['metadata']['foo'] = gen_nb.gen_metadata_extra(rng)
    for c in b['cells']:
        if rng.random() < 0.6:
            continue
        if 'metadata' in ignored:
            gen_nb.edit_cell(rng, c, 'metadata')
            for o in c.get('outputs', []):
                if 'metadata' in o:
                    o['metadata'] = rng.choice([{}, {'isolated': True}, {'w': 1}])
        if 'id' in ignored and 'id' in c:
            c['id'] = gen_nb.new_id(rng, used)
        if 'details' in ignored and c['cell_type'] == 'code':
            ec = rng.choice([None, 21, 34])
            c['execution_count'] = ec
            for o in c['outputs']:
                if o['output_type'] == 'execute_result':
                    o['execution_count'] = rng.choice([None, 21, 34, 55])
        if 'outputs' in ignored and c['cell_type'] == 'code':
            gen_nb.edit_cell(rng, c, 'outputs')
        if 'attachments' in ignored and c['cell_type'] != 'code':
            gen_nb.edit_cell(rng, c, 'attachments')
    assert gen_nb.is_valid(b)
    return b


@vlib.classifier('ignore-leak')
def _cls_leak(data, finding):
    return data.get('kind') == 'leak' and data.get('leak_path') == finding['param']['path'] and \
        data.get('leak_op') in finding['param']['ops'] and data.get('category') == finding['param']['category']


@vlib.classifier('ignore-align')
def _cls_align(data, finding):
    """only ignored content differs and whole cells are reported as added / removed: the cell alignment changed because
    the alignment predicates look at (a) outputs of cells that share their source in a notebook without usable ids, or
    (b) ids that differ although ids are ignored"""
    if data.get('kind') != 'only-ignored-nonempty' or '/cells/*' not in (data.get('other') or []):
        return False
    a, b = dec(data['a']), dec(data['b'])
    ignored = data.get('ignored', [])
    srcs = [(c['cell_type'], c['source']) for c in a['cells']]
    idless = not any('id' in c for c in a['cells']) or 'id' in ignored
    same_source = idless and len(set(srcs)) < len(srcs) and 'outputs' in ignored
    ids_differ = 'id' in ignored and [c.get('id') for c in a['cells']] != [c.get('id') for c in b['cells']]
    # (c) with outputs ignored the differ consulted by compare_cell_moderate returns an empty diff for any two non-empty
    # output lists: cells whose sources are merely similar look alike at that level and are aligned crosswise
    similar_sources = False
    if idless and 'outputs' in ignored:
        from nbdime.diffing.notebooks import compare_text_approximate
        cs = a['cells']
        similar_sources = any(cs[i]['cell_type'] == cs[j]['cell_type'] and compare_text_approximate(cs[i]['source'], cs[j]['source'])
                              for i in range(len(cs)) for j in range(i + 1, len(cs)))
    return same_source or ids_differ or similar_sources


@vlib.classifier('numeric-alias-ignore')
def _cls_alias_ignore(data, finding):
    """the patched notebook differs from the target, outside the ignored categories, only by ==-equal numbers of
    different JSON type"""
    from checks.c02 import norm_alias
    if data.get('kind') != 'unfaithful':
        return False
    try:
        got, want, ignored = dec(data['got']), dec(data['b']), data.get('ignored', [])
    except Exception:
        return False
    return canon(mask(got, ignored)) != canon(mask(want, ignored)) and \
        canon(norm_alias(mask(got, ignored))) == canon(norm_alias(mask(want, ignored)))


def prop(ignored, mode):
    def check(ctx, a, b, d, m_patch, base):
        base = dict(base, ignored=list(ignored), mode=mode)
        leaks = []
        for p, e in op_paths(d):
            c = in_cat(ignored, p)
            if c is not None:
                # report the outermost leaking entry only (its children are inside the same leak)
                if not any(p.startswith(q + '/') for q, _ in leaks):
                    leaks.append((p, e))
                    ctx.violation('diff reports %s at %s although %s is ignored (%s)' % (e['op'], p, c, mode),
                                  dict(base, kind='leak', leak_path=p, leak_op=e['op'], category=c, diff=enc_diff(d)))
        if 'ok' not in m_patch:
            ctx.violation('independent patcher rejects the diff: %s' % m_patch, dict(base, kind='model-patch-rejects', diff=enc_diff(d)))
        elif canon(mask(dec(m_patch['ok']), ignored)) != canon(mask(b, ignored)):
            ctx.violation('patched notebook differs from the target in a non-ignored part (%s, ignoring %s)' % (mode, ignored),
                          dict(base, kind='unfaithful', diff=enc_diff(d), got=m_patch['ok']))
        nosrc = [c for c in ignored if c != 'sources']   # the clause names outputs, attachments, metadata, ids, details
        if d and canon(mask(a, nosrc)) == canon(mask(b, nosrc)):
            # entries that are not (ancestors of) an already reported leak
            leakpaths = [p for p, _ in leaks]
            other = [p for p, e in op_paths(d) if e['op'] != 'patch' and not any(p == q or p.startswith(q + '/') for q in leakpaths)]
            if other:
                ctx.violation('notebooks differ only in ignored categories %s but the diff reports %s (%s)' % (ignored, sorted(set(other))[:3], mode),
                              dict(base, kind='only-ignored-nonempty', diff=enc_diff(d), other=sorted(set(other))))
    return check


def extract_tables():
    """differ table for each of the 64 subsets, from the live set_notebook_diff_targets"""
    from nbdime.diffing.notebooks import set_notebook_diff_targets, reset_notebook_differ
    out = []
    for bits in range(64):
        ignored = [c for i, c in enumerate(CATS) if bits >> i & 1]
        reset_notebook_differ()
        kw = {('identifier' if c == 'id' else c): (c not in ignored) for c in CATS}
        set_notebook_diff_targets(**kw)
        cfg = nbcfg.extract_cfg()
        reset_notebook_differ()
        out.append((ignored, cfg['differTable'], cfg['differDefault']))
    return out


def lean_differ(d):
    if isinstance(d, str):
        return '.' + d
    return '(.ignoreKeys %s [%s])' % (lean_differ(d[1]), ', '.join(json.dumps(k) for k in d[2]))


def lean_tables(tables):
    rows = []
    for ignored, table, default in tables:
        ig = '[' + ', '.join('"%s"' % c for c in ignored) + ']'
        tb = '[' + ', '.join('(%s, %s)' % (json.dumps(k), lean_differ(v)) for k, v in table) + ']'
        rows.append('  (%s, %s, %s)' % (ig, tb, lean_differ(default)))
    return ('import NbdimeProofs\nopen Nbdime\n'
            'def extractedTables : List (List String × List (String × Differ) × Differ) := [\n' + ',\n'.join(rows) + '\n]\n'
            'example : extractedTables.length = 64 := by decide\n'
            'example : extractedTables.all (fun t => C14.tableOk t.1 t.2.1 t.2.2) = true := by decide\n')


def run(ctx):
    ctx.cov['rule'] = ('all 64 subsets of the six categories x the ways to specify them (negative flags, positive flags, '
                       'config booleans, config Ignore mapping by category, by key list, and by individual path) through the real nbdiff parser glue, x generated notebook pairs '
                       '(random edits, and edits confined to the ignored categories); non-trivial = notebooks differ; '
                       'distinct by (subset, mode, pair)')
    vlib.audit(ctx, 'NbdimeProofs', THEOREMS)
    # generated proof obligation: the extracted tables satisfy the category predicate
    try:
        tables = extract_tables()
        ok, out = vlib.lean_run(lean_tables(tables), 'C14_Tables.lean')
        ctx.cov['obligations'] += 2
        ctx.cov['extracted_tables'] = {'subsets': len(tables), 'sample': tables[21][:2]}
        if ok:
            ctx.cov['discharged'] += 2
        else:
            ctx.count('table-obligation-failed')
            table_broken = out[-600:]
    except nbcfg.UnknownTableEntry as e:
        ok, table_broken = False, str(e)
    rng = ctx.rng
    npairs = 3 if ctx.tier == 'quick' else 40
    mism = []
    for bits in range(64):
        ignored = [c for i, c in enumerate(CATS) if bits >> i & 1]
        modes = modes_for(ignored)
        if ctx.tier == 'quick':
            modes = [modes[bits % len(modes)], modes[(bits // 3 + 1) % len(modes)]] + [x for x in modes if x == 'keys+D']
        for mode in dict.fromkeys(modes):
            cases = []
            for k in range(npairs):
                if k % 3 == 2 and ignored:
                    a = gen_nb.gen_notebook(rng, ncells=rng.choice([1, 2, 3, 4]))
                    tag = 'only-ignored'
                    if rng.random() < 0.3 and gen_nb.inflate(rng, a):
                        tag = 'only-ignored-big'
                        ctx.count('payload beyond the comparison length')
                    cases.append((tag, a, edit_only_ignored(rng, a, ignored), ['only-ignored']))
                else:
                    a, b, kinds = gen_nb.pair(rng)
                    cases.append(('generated', a, b, kinds))
            with Configured(mode, ignored):
                mism += c01.check_cases(ctx, cases, prop=prop(ignored, mode))
            ctx.count('mode:' + mode)
    # Ignore mappings that name individual paths of a category (e.g. only the metadata of outputs)
    for k in range(24 if ctx.tier == 'quick' else 400):
        # container-valued paths only: `true` on a scalar path (ids, execution counts) has no differ to replace,
        # nbdime's own tables use key lists on the parent for those (finding F-ign-id covers the id case)
        paths = [p for _c, p in ALL_PATHS if not p.endswith(('/id', '/execution_count')) and rng.random() < 0.35] \
            or ['/cells/*/outputs/*/metadata']
        cases = []
        for _ in range(2):
            a = gen_nb.gen_notebook(rng, ncells=rng.choice([2, 3, 4]))
            b = edit_only_ignored(rng, a, [c for c in CATS if c != 'sources' and rng.random() < 0.6] or ['metadata'])
            cases.append(('path-mapping', a, b, ['path-mapping']))
        with Configured('cfg-paths', paths):
            mism += c01.check_cases(ctx, cases, prop=prop_paths(paths, 'cfg-paths'))
        ctx.count('mode:cfg-paths')
    ctx.cov['correspondence_mismatches'] = len(mism)
    if not ok and not ctx.violations:
        ctx.violation('generated obligation C14.tableOk over the extracted ignore tables no longer checks: %s' % table_broken,
                      {'kind': 'obligation', 'theorem': 'C14.tableOk (gen/C14_Tables.lean)', 'output': table_broken},
                      found=False, classify=False)
    if mism and not ctx.violations:
        ctx.violation('correspondence model <-> diff_notebooks under ignore configurations broken (%d); first: %s'
                      % (len(mism), json.dumps(mism[0])[:400]),
                      {'kind': 'correspondence', 'stream': 'C14 diffnb under ignore tables', 'first': mism[0]}, found=False, classify=False)


def replay(path):
    data = json.load(open(path))['data']
    ctx = vlib.Ctx('C14', 'quick', 0)
    if 'a' in data and 'ignored_paths' in data:
        with Configured(data['mode'], data['ignored_paths']):
            c01.check_cases(ctx, [('replay', dec(data['a']), dec(data['b']), ['replay'])], prop=prop_paths(data['ignored_paths'], data['mode']))
    elif 'a' in data and 'ignored' in data:
        with Configured(data['mode'], data['ignored']):
            c01.check_cases(ctx, [('replay', dec(data['a']), dec(data['b']), ['replay'])], prop=prop(data['ignored'], data['mode']))
    for what, p, found in ctx.violations:
        print('REPRODUCED:', what[:300])
    for k in ctx.known:
        print('KNOWN-FINDING (reproduced):', k['tag'])
    return 1 if (ctx.violations or ctx.known) else 0
