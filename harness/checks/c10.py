"""C10 use-base / use-local / use-remote equal resolving every open conflict to that side.
Lean: Properties/C05.lean (C10_relabel_no_conflict, C10_relabel_keeps_resolved) over the decision
applier. Search: both computations on the real merger (strategy merge vs mergetool decisions relabelled
and applied by apply_decisions and by the Lean applier) and source-line provenance."""
import copy, json
import vlib, gen_nb
from vlib import enc, dec, canon, plain
from checks import mergelib, c09

THEOREMS = ['Nbdime.C10_relabel_no_conflict', 'Nbdime.C10_relabel_keeps_resolved', 'Nbdime.C09_chooseSide_action']
SIDE = {'use-base': 'base', 'use-local': 'local', 'use-remote': 'remote'}


@vlib.classifier('line-join')
def _cls_join(data, finding):
    """every fabricated line is the concatenation of a line of one input and a line of another
    (a line without terminator followed by an insertion from the other side)"""
    if data.get('kind') != 'invented':
        return False
    lines = set()
    for x in 'blr':
        lines |= set(mergelib.source_lines(dec(data[x])))
    stripped = {y.strip() for y in lines if y.strip()}

    def joined(s):
        # can s be cut into two or more pieces that are all lines of the inputs?
        n = len(s)
        ways = [0] * (n + 1)          # max number of pieces for the prefix, 0 = impossible
        ok = [False] * (n + 1)
        ok[0] = True
        for i in range(1, n + 1):
            for j in range(i):
                if ok[j] and s[j:i].strip() in stripped:
                    ok[i] = True
                    ways[i] = max(ways[i], ways[j] + 1)
        return ok[n] and ways[n] >= 2
    return all(joined(s) for s in data.get('invented', []))


def relabel(decisions, side):
    out = []
    for d in decisions:
        e = copy.deepcopy(d)
        if e.get('conflict'):
            e['action'] = side
            e['conflict'] = False
            e['local_diff'] = e.get('local_diff') or []
            e['remote_diff'] = e.get('remote_diff') or []
        out.append(e)
    return out


def check_triple(ctx, reqs, metas, b, l, r, strat, transients, md, kinds, variant):
    if variant == 'merge':
        a = mergelib.Args(strat, None, None, transients)
    elif variant == 'input':
        a = mergelib.Args('inline', strat, None, transients)
    else:
        a = mergelib.Args('inline', None, strat, transients)
    with mergelib.renderer(md):
        res = mergelib.run_merge(b, l, r, a)
        ref = mergelib.run_decide(b, l, r, mergelib.Args('mergetool', None, None, transients))
    ctx.count('variant:' + variant)
    ctx.count('strategy:' + strat)
    ctx.case(canon(b) + canon(l) + canon(r) + json.dumps(a.key()) + md, True)
    data = {'b': enc(b), 'l': enc(l), 'r': enc(r), 'strategy': a.key(), 'helper': md, 'scenario': kinds, 'variant': variant}
    if res[0] != 'ok':
        ctx.violation('merge raised %s under %s' % (res[2], a.key()), dict(data, kind='merge-raises', site=mergelib.LAST_ERROR_SITE[0]))
        return
    merged, decisions = res[1], res[2]
    # provenance of source lines (all variants)
    lb, ll, lr, lm = (set(mergelib.nonblank(mergelib.source_lines(x))) for x in (b, l, r, merged))
    if variant == 'merge':
        invented = sorted(x for x in lm if x not in lb and x not in ll and x not in lr)
        if invented:
            ctx.violation('%s produced source line(s) absent from all three inputs: %r' % (strat, invented[:3]), dict(data, kind='invented', invented=invented))
        if mergelib.has_conflict(decisions):
            ctx.violation('%s leaves an unresolved conflict' % strat, dict(data, kind='unresolved'))
        if ref[0] == 'ok':
            rl = relabel(ref[1], SIDE[strat])
            ia = c09.impl_apply(b, rl)
            known = mergelib.known_ids(b, l, r)
            if ia[0] != 'ok':
                ctx.violation('resolving every open conflict of the mergetool decisions to %s cannot be applied: %s' % (SIDE[strat], ia[2]), dict(data, kind='relabel-fails'))
            elif canon(mergelib.mask_new_ids(ia[1], known)) != canon(mergelib.mask_new_ids(merged, known)):
                ctx.violation('%s differs from resolving every open conflict to %s' % (strat, SIDE[strat]), dict(data, kind='differs', got=enc(merged), want=enc(ia[1])))
            reqs.append({'cmd': 'apply', 'base': enc(b), 'decisions': c09.enc_decisions(rl)})
            metas.append((data, ia, known))
            if ref[1] and len(ctx.cov['samples']) < 2 and mergelib.has_conflict(ref[1]):
                ctx.sample({'strategy': strat, 'scenario': kinds, 'open_conflicts': sum(1 for d in ref[1] if d.get('conflict'))})
    else:
        # strategy given only for inputs / outputs: those fields must come out exactly as under the
        # same strategy given as --merge-strategy (cells matched by id), and no conflict may remain there
        # reference: the same merge with conflicts on those paths left open ('mergetool' for that
        # strategy slot), every conflicted decision below those paths resolved to the side
        fields = {'input': ('source', 'attachments'), 'output': ('outputs',)}[variant]
        open_args = mergelib.Args('inline', 'mergetool' if variant == 'input' else None, 'mergetool' if variant == 'output' else None, transients)
        with mergelib.renderer(md):
            ref2 = mergelib.run_decide(b, l, r, open_args)
        if ref2[0] == 'ok':
            rl = []
            for d in ref2[1]:
                e = copy.deepcopy(d)
                p = e.get('common_path') or []
                below = len(p) >= 3 and p[0] == 'cells' and p[2] in fields
                at = len(p) == 2 and p[0] == 'cells' and any(x.get('key') in fields for x in (e.get('local_diff') or []) + (e.get('remote_diff') or []))
                if e.get('conflict') and (below or at):
                    e.update(action=SIDE[strat], conflict=False, local_diff=e.get('local_diff') or [], remote_diff=e.get('remote_diff') or [])
                rl.append(e)
            ia = c09.impl_apply(b, rl)
            known = mergelib.known_ids(b, l, r)
            if ia[0] == 'ok' and canon(mergelib.mask_new_ids(ia[1], known)) != canon(mergelib.mask_new_ids(merged, known)):
                ctx.violation('%s given as %s strategy differs from leaving those conflicts open and resolving them to %s' % (strat, variant, SIDE[strat]),
                              dict(data, kind='variant-differs', got=enc(merged), want=enc(ia[1])))
        pref = {'input': ('source', 'attachments'), 'output': ('outputs',)}[variant]
        for d in decisions:
            p = d.get('common_path') or []
            if d.get('conflict') and len(p) >= 3 and p[0] == 'cells' and p[2] in pref:
                ctx.violation('%s-strategy %s leaves an unresolved conflict at %s' % (variant, strat, p), dict(data, kind='unresolved'))


def _run_property(ctx):
    ctx.cov['rule'] = ('notebook triples (as C03) x strategy in {use-base, use-local, use-remote} given as --merge-strategy (full equivalence with the relabelled '
                       'mergetool decisions + provenance) or only as input / output strategy (no conflict left on those paths) x transients ignored or not x helper; '
                       'non-trivial = every case; distinct by (triple, strategy, variant)')
    vlib.audit(ctx, 'NbdimeProofs', THEOREMS)
    rng = ctx.rng
    reqs, metas = [], []
    for t in range(220 if ctx.tier == 'quick' else 3000):
        b, l, r, kinds = gen_nb.any_triple(rng, minor=5 if t % 4 == 3 else None)
        strat = ['use-base', 'use-local', 'use-remote'][t % 3]
        variant = 'merge' if t % 4 != 3 else rng.choice(['input', 'output'])
        check_triple(ctx, reqs, metas, b, l, r, strat, rng.random() < 0.7, mergelib.RENDERERS[(t // 3) % 3], kinds, variant)
    mism = []
    for (data, ia, known), rep in zip(metas, vlib.Driver().run(reqs) if reqs else []):
        ctx.cov['traces_validated_against_impl'] += 1
        if ('ok' in rep) != (ia[0] == 'ok') or ('ok' in rep and canon(mergelib.mask_new_ids(dec(rep['ok']), known)) != canon(mergelib.mask_new_ids(ia[1], known))):
            mism.append(dict(data, model=rep if 'ok' not in rep else 'differs'))
    ctx.cov['correspondence_mismatches'] = len(mism)
    if mism and not ctx.violations:
        ctx.violation('correspondence Apply model <-> apply_decisions on relabelled decisions broken (%d)' % len(mism),
                      {'kind': 'correspondence', 'stream': 'C10 apply', 'first': {k: mism[0][k] for k in ('strategy', 'model')}}, found=False, classify=False)


MERGE_MODEL_THEOREMS = ['Nbdime.C10_model_no_conflict', 'Nbdime.C10_cli_no_conflict', 'Nbdime.C10.useArgs_ok', 'Nbdime.C10_model_mixed_any_strategy']
THEOREMS.extend(t for t in MERGE_MODEL_THEOREMS if t not in THEOREMS)


def table_obligation(ctx):
    """per run: the strategy tables nbdime builds for the use-* options (extracted by calling
    notebook_merge_strategies) meet the hypotheses of C10_model_no_conflict (decide +kernel)"""
    from nbdime.merging.notebooks import notebook_merge_strategies
    rows = []
    for a in mergelib.all_combos():
        if a.merge_strategy.startswith('use-') and (a.input_strategy is None or a.input_strategy.startswith('use-')) \
                and (a.output_strategy is None or a.output_strategy.startswith('use-') or a.output_strategy in ('remove', 'clear-all')):
            st = notebook_merge_strategies(a)
            rows.append(sorted((k, v) for k, v in dict(st).items() if v is not None))
    body = ',\n'.join('  [' + ', '.join('(%s, %s)' % (json.dumps(k), json.dumps(v)) for k, v in tab) + ']' for tab in rows)
    src = ('import NbdimeProofs\nopen Nbdime\n'
           'def useTables : List (List (String × String)) := [\n' + body + '\n]\n'
           'set_option maxRecDepth 100000 in\nexample : useTables.length = %d := by decide +kernel\n' % len(rows) +
           'set_option maxRecDepth 100000 in\nexample : useTables.all (fun t => C10.plainTableB t && '
           'Merge.isUse ((Merge.Strategies.get ⟨t, []⟩ "/").getD "")) = true := by decide +kernel\n')
    ok, out = vlib.lean_run(src, 'C10_Tables.lean')
    ctx.cov['obligations'] += 2
    ctx.cov['extracted_use_tables'] = len(rows)
    if not ok:
        return out[-500:]
    ctx.cov['discharged'] += 2
    # C10_cli_no_conflict speaks about Merge.notebookStrategies: that function must be what the code computes now
    from checks import c03
    src2, n2 = c03.lean_strategy_function_obligation(c03.extract_strategy_tables())
    ok2, out2 = vlib.lean_run(src2, 'C10_StrategyFunction.lean')
    ctx.cov['obligations'] += n2
    if not ok2:
        return 'Merge.notebookStrategies differs from notebook_merge_strategies: ' + out2[-400:]
    ctx.cov['discharged'] += n2
    return None


def run(ctx):
    from checks import mergemodel
    _run_property(ctx)
    try:
        note = table_obligation(ctx)
    except Exception as e:
        note = 'extractor failed: %r' % (e,)
    if note and not ctx.violations:
        ctx.violation('generated obligation (strategy tables of the use-* options satisfy the hypotheses of C10_model_no_conflict) no longer checks: ' + note,
                      {'kind': 'obligation', 'theorem': 'gen/C10_Tables.lean', 'output': note}, found=False, classify=False)
    mergemodel.tie(ctx, (50, 20, 600, 200), MERGE_MODEL_THEOREMS, combos=[mergelib.Args('use-base'), mergelib.Args('use-local'), mergelib.Args('use-remote'), mergelib.Args('mergetool'), mergelib.Args('inline', 'use-local', 'use-remote'), mergelib.Args('inline', None, 'use-base', False), mergelib.Args('use-remote', 'inline', None)])


def replay(path):
    _d = json.load(open(path))['data']
    if _d.get('kind') == 'correspondence' and _d.get('stream') == 'merge-model':
        from checks import mergemodel
        return mergemodel.replay_case(_d)
    return _replay_property(path)


def _replay_property(path):
    data = json.load(open(path))['data']
    ctx = vlib.Ctx('C10', 'quick', 0)
    if 'b' in data:
        s = data['strategy']
        strat = s[0] if data['variant'] == 'merge' else s[1] if data['variant'] == 'input' else s[2]
        check_triple(ctx, [], [], dec(data['b']), dec(data['l']), dec(data['r']), strat, s[3], data.get('helper', 'git'), [], data['variant'])
    for what, p, found in ctx.violations:
        print('REPRODUCED:', what[:300])
    return 1 if ctx.violations else 0
