"""C19 option resolution: flag > most specific configuration section > default; cwd file first.
Model: NbdimeModel/Config.lean. Tie: the class table (sections, own traits, defaults, MRO of every
entry point) is extracted from the live classes on every run, checked against the documented
specificity order by a generated Lean `decide` obligation, and `build_config` / the entry-point
parsers are run in-process on generated section/file/flag assignments and compared with the model
and with an executable statement of the documented rule."""
import copy, json, os, sys, tempfile
import vlib
from vlib import enc, dec, canon

THEOREMS = ['Nbdime.C19_resolve_scalar', 'Nbdime.C19_flag_wins', 'Nbdime.C19_cwd_first', 'Nbdime.C19_tableOk_sound']
DOC_ORDER = {
    'nbdiff': ['NbDiff', 'GitDiff', 'Diff', 'Global'],
    'nbdiff-web': ['NbDiffWeb', 'GitDiff', 'Diff', 'Web', 'Global'],
    'nbmerge': ['NbMerge', 'Merge', 'Global'],
    'nbmerge-web': ['NbMergeWeb', 'Merge', 'Web', 'Global'],
    'nbshow': ['NbShow', 'Show', 'Global'],
    'server': ['Server', 'Web', 'Global'],
    'extension': ['Extension', 'GitDiff', 'Diff', 'Global'],
    'git-nbdiffdriver': ['NbDiffDriver', 'GitDiff', 'Diff', 'Global'],
    'git-nbdifftool': ['NbDiffTool', 'GitDiff', 'Diff', 'WebTool', 'Web', 'Global'],
    'git-nbmergedriver': ['NbMergeDriver', 'GitMerge', 'Merge', 'Global'],
    'git-nbmergetool': ['NbMergeTool', 'GitMerge', 'Merge', 'WebTool', 'Web', 'Global'],
}
VALUES = {
    'port': [1234, 4321, 9999], 'ip': ['0.0.0.0', 'localhost'], 'base_url': ['/x/', '/nb/'], 'browser': ['firefox', 'lynx'],
    'persist': [True, False], 'workdirectory': ['/tmp', '/srv'], 'color_words': [True, False],
    'sources': [True, False], 'outputs': [True, False], 'metadata': [True, False], 'id': [True, False],
    'attachments': [True, False], 'details': [True, False],
    'merge_strategy': ['use-base', 'use-local', 'use-remote', 'inline'], 'input_strategy': ['use-local', 'inline'],
    'output_strategy': ['remove', 'clear-all', 'use-remote'], 'ignore_transients': [True, False], 'show_base': [True, False],
    'log_level': ['DEBUG', 'WARN', 'ERROR'],
}
IGN_PATHS = ['/cells/*/metadata', '/metadata', '/cells/*/outputs', '/cells/*']


def extract_table():
    import nbdime.config as C
    eps = {}
    for ep, cls in C.entrypoint_configurables.items():
        mro = []
        for c in cls.mro():
            if isinstance(c, type) and issubclass(c, C.NbdimeConfigurable) and c is not C.NbdimeConfigurable:
                own = C.config_instance(c).configured_traits(c)
                mro.append({'name': c.__name__, 'own': enc(vlib.plain(own))})
        alltraits = sorted(cls.class_traits(config=True))
        eps[ep] = {'mro': mro, 'options': alltraits, 'cls': cls.__name__}
    return eps


def lean_table(eps):
    def own(o):
        return '[' + ', '.join(json.dumps(k) for k, _ in o['o']) + ']'
    rows = []
    for ep, t in sorted(eps.items()):
        mro = '[' + ', '.join('(%s, %s)' % (json.dumps(c['name']), own(c['own'])) for c in t['mro']) + ']'
        doc = '[' + ', '.join(json.dumps(s) for s in DOC_ORDER[ep]) + ']'
        rows.append('  (%s, %s, %s)' % (json.dumps(ep), mro, doc))
    return ('import NbdimeProofs\nopen Nbdime Nbdime.Config\n'
            '-- (entry point, MRO as (section, options it declares), documented specificity order)\n'
            'def extracted : List (String × List (String × List String) × List String) := [\n' + ',\n'.join(rows) + '\n]\n'
            'example : extracted.length = 11 := by decide\n'
            'example : extracted.all (fun t => C19.tableOk t.2.1 t.2.2) = true := by decide\n'), 2


class Dirs:
    def __enter__(self):
        self.td = tempfile.TemporaryDirectory(prefix='verif-c19-')
        t = self.td.name
        self.dirs = {'cwd': os.path.join(t, 'cwd'), 'user': os.path.join(t, 'user'), 'extra': os.path.join(t, 'extra')}
        for d in self.dirs.values():
            os.makedirs(d)
        self.saved = {k: os.environ.get(k) for k in ('JUPYTER_CONFIG_DIR', 'JUPYTER_CONFIG_PATH')}
        os.environ['JUPYTER_CONFIG_DIR'] = self.dirs['user']
        os.environ['JUPYTER_CONFIG_PATH'] = self.dirs['extra']
        self.cwd = os.getcwd()
        os.chdir(self.dirs['cwd'])
        return self

    def write(self, files):
        for k, d in self.dirs.items():
            p = os.path.join(d, 'nbdime_config.json')
            if files.get(k) is None:
                if os.path.exists(p):
                    os.remove(p)
            else:
                json.dump(files[k], open(p, 'w'))

    def ascending(self, files):
        """the generated files in ascending priority, as the code will see them"""
        from jupyter_core.paths import jupyter_config_path
        path = [os.path.realpath(os.getcwd())] + [os.path.realpath(p) for p in jupyter_config_path()]
        byreal = {os.path.realpath(d): k for k, d in self.dirs.items()}
        order = [byreal[p] for p in path if p in byreal]
        assert order[0] == 'cwd', order
        return [files[k] for k in reversed(order) if files.get(k) is not None], order

    def __exit__(self, *exc):
        os.chdir(self.cwd)
        for k, v in self.saved.items():
            if v is None:
                os.environ.pop(k, None)
            else:
                os.environ[k] = v
        self.td.cleanup()


def gen_files(rng, ep, eps):
    """section -> option assignments spread over up to three files"""
    import nbdime.config as C
    epopts = [o for o in eps[ep]['options'] if o in VALUES]
    sections = DOC_ORDER[ep] + [s for s in ('Web', 'Diff', 'Merge') if rng.random() < 0.1]
    files = {}
    for where in ('cwd', 'user', 'extra'):
        if rng.random() < 0.35:
            files[where] = None
            continue
        f = {}
        for s in rng.sample(sections, rng.randrange(1, min(4, len(sections)) + 1)):
            sec = {}
            # a section only takes the options its class supports
            supported = set(getattr(C, s).class_traits(config=True))
            opts = [o for o in epopts if o in supported] if s in DOC_ORDER[ep] else [o for o in VALUES if o in supported]
            for o in rng.sample(opts, rng.randrange(0, min(4, len(opts)) + 1)):
                sec[o] = rng.choice(VALUES[o]) if rng.random() < 0.9 else None
            if 'Ignore' in eps[ep]['options'] and 'Ignore' in supported and rng.random() < 0.4:
                sec['Ignore'] = {p: rng.choice([True, False, ['execution_count'], ['a', 'b']]) for p in rng.sample(IGN_PATHS, rng.randrange(1, 3))}
            if s == 'Global' and rng.random() < 0.7:
                sec = {'log_level': rng.choice(VALUES['log_level'])}
            f[s] = sec
        files[where] = f
    return files


def merged_section(asc, name):
    """spec side: highest-priority file mentioning (section, option) decides; null unsets"""
    out = {}
    for f in asc:
        sec = f.get(name)
        if isinstance(sec, dict):
            for k, v in sec.items():
                if isinstance(v, dict):
                    cur = out.get(k) if isinstance(out.get(k), dict) else {}
                    cur = dict(cur)
                    cur.update(v)
                    out[k] = cur
                elif v is None:
                    out.pop(k, None)
                else:
                    out[k] = v
    return out


def spec_value(ep, eps, asc, opt, default):
    for s in DOC_ORDER[ep]:
        sec = merged_section(asc, s)
        if opt in sec and not isinstance(sec[opt], dict):
            return sec[opt]
    return default


def spec_ignore(ep, asc):
    out = {}
    for s in reversed(DOC_ORDER[ep]):
        sec = merged_section(asc, s)
        if isinstance(sec.get('Ignore'), dict):
            out.update(sec['Ignore'])
    return out


@vlib.classifier('global-section')
def _cls_global(data, finding):
    return data.get('kind') == 'resolution' and data.get('option') == 'log_level'


def run(ctx):
    import nbdime.config as C
    ctx.cov['rule'] = ('entry point x assignment of values to options in a random subset of its documented sections spread over up to three '
                       'configuration directories (cwd, JUPYTER_CONFIG_PATH, JUPYTER_CONFIG_DIR) x flags; build_config and the entry-point parser '
                       'compared with the Lean model and with the documented rule; non-trivial = at least two sections or files set the same option; '
                       'distinct by (entry point, files, flags)')
    vlib.audit(ctx, 'NbdimeProofs', THEOREMS)
    eps = extract_table()
    src, n = lean_table(eps)
    ok, out = vlib.lean_run(src, 'C19_Tables.lean')
    ctx.cov['obligations'] += n
    table_note = None
    if ok:
        ctx.cov['discharged'] += n
    else:
        table_note = out[-600:]
    ctx.cov['extracted_table'] = {ep: [c['name'] for c in t['mro']] for ep, t in eps.items()}
    rng = ctx.rng
    ncase = 150 if ctx.tier == 'quick' else 4000
    reqs, cases = [], []
    cp = os.path.join(vlib.VERIF, 'corpus', 'C19.json')
    corpus = json.load(open(cp)) if os.path.exists(cp) else []
    with Dirs() as d:
        for i in range(ncase + len(corpus)):
            if i < len(corpus):
                ep, files = corpus[i]['ep'], corpus[i]['files']
            else:
                ep = rng.choice(sorted(eps))
                files = gen_files(rng, ep, eps)
            d.write(files)
            asc, order = d.ascending(files)
            C._config_cache.clear() if False else None
            try:
                if rng.random() < 0.3:
                    # what `<entry point> --config` / `nbdime --config` evaluates first (include_none view)
                    view = vlib.plain(C.build_config(rng.choice(sorted(eps)) if rng.random() < 0.5 else ep, True))
                    ctx.count('config-view-call')
                got = vlib.plain(C.build_config(ep))
                err = None
            except Exception as e:
                got, err = None, '%s: %s' % (type(e).__name__, e)
            cases.append((ep, files, asc, got, err))
            reqs.append({'cmd': 'cfg', 'mro': eps[ep]['mro'], 'files': [enc(f) for f in asc]})
        # parser leg: flags override, for the CLI entry points whose parser can be built in-process
        parser_cases = []
        import nbdime.nbdiffapp, nbdime.nbmergeapp, nbdime.nbshowapp
        builders = {'nbdiff': nbdime.nbdiffapp._build_arg_parser, 'nbmerge': nbdime.nbmergeapp._build_arg_parser,
                    'nbshow': nbdime.nbshowapp._build_arg_parser}
        for _ in range(40 if ctx.tier == 'quick' else 600):
            ep = rng.choice(sorted(builders))
            files = gen_files(rng, ep, eps)
            flag_default = ep == 'nbmerge' and rng.random() < 0.4
            if flag_default:
                # the flag is given with exactly the built-in default while a config file says something else
                where = rng.choice(['cwd', 'user'])
                files[where] = dict(files.get(where) or {})
                files[where]['NbMerge'] = dict(files[where].get('NbMerge') or {}, merge_strategy=rng.choice(['use-local', 'use-remote', 'use-base']))
            d.write(files)
            asc, order = d.ascending(files)
            flags = {}
            argv = []
            if flag_default:
                flags['merge_strategy'] = 'inline'
                argv += ['--merge-strategy', 'inline']
                ctx.count('parser: flag equal to the built-in default against a config value')
            elif ep == 'nbmerge' and rng.random() < 0.6:
                flags['merge_strategy'] = rng.choice(VALUES['merge_strategy'])
                argv += ['--merge-strategy', flags['merge_strategy']]
            if ep == 'nbmerge' and rng.random() < 0.3:
                flags['ignore_transients'] = False
                argv += ['--no-ignore-transients']
            if rng.random() < 0.5 and ep == 'nbdiff':
                flags['color_words'] = True
                argv += ['--color-words']
            if rng.random() < 0.4:
                flags['log_level'] = rng.choice(['DEBUG', 'ERROR'])
                argv += ['--log-level', flags['log_level']]
            pos = {'nbdiff': ['a.ipynb', 'b.ipynb'], 'nbmerge': ['b.ipynb', 'l.ipynb', 'r.ipynb'], 'nbshow': ['a.ipynb']}[ep]
            try:
                p = builders[ep](ep) if ep == 'nbdiff' else builders[ep]()
                p.prog = ep
                ns = vars(p.parse_args(argv + pos))
                err = None
            except BaseException as e:
                ns, err = None, repr(e)[:200]
            from nbdime.diffing.notebooks import reset_notebook_differ
            reset_notebook_differ()
            parser_cases.append((ep, files, asc, flags, ns, err))
    model = vlib.Driver().run(reqs)
    mism = []
    for (ep, files, asc, got, err), m in zip(cases, model):
        ctx.count('ep:' + ep)
        multi = sum(1 for f in asc for s in f.values() if s) >= 2
        ctx.case(json.dumps([ep, files], sort_keys=True), multi)
        ctx.sample({'ep': ep, 'files': files}, limit=2)
        data = {'ep': ep, 'files': files}
        if err:
            ctx.violation('build_config(%s) raised %s' % (ep, err), dict(data, kind='raises'))
            continue
        inst = C.config_instance(C.entrypoint_configurables[ep])
        for opt in eps[ep]['options']:
            if opt == 'Ignore':
                want = spec_ignore(ep, asc)
                have = got.get('Ignore', {})
                if canon(want) != canon(have):
                    ctx.violation('%s: Ignore mapping resolved to %r, documented rule gives %r' % (ep, have, want),
                                  dict(data, kind='resolution', option='Ignore', got=have, want=want))
                continue
            default = getattr(inst, opt)
            want = spec_value(ep, eps, asc, opt, default)
            have = got.get(opt)
            if canon(want) != canon(have):
                ctx.violation('%s: option %s resolved to %r, documented rule gives %r' % (ep, opt, have, want),
                              dict(data, kind='resolution', option=opt, got=have, want=want))
        # Global section (log_level is an option of every entry point, given as --log-level)
        glob = spec_value(ep, eps, asc, 'log_level', None)
        if glob is not None and got.get('log_level') != glob:
            ctx.violation('%s: log_level from the Global section is not applied (got %r, documented rule gives %r)' % (ep, got.get('log_level'), glob),
                          dict(data, kind='resolution', option='log_level', got=got.get('log_level'), want=glob))
        ctx.cov['traces_validated_against_impl'] += 1
        if 'ok' not in m or canon(dec(m['ok'])) != canon(got):
            mism.append(dict(data, impl=got, model=dec(m['ok']) if 'ok' in m else m))
    for ep, files, asc, flags, ns, err in parser_cases:
        ctx.count('parser:' + ep)
        data = {'ep': ep, 'files': files, 'flags': flags}
        ctx.case(json.dumps([ep, files, flags], sort_keys=True), bool(flags))
        if err:
            ctx.violation('%s parser failed: %s' % (ep, err), dict(data, kind='raises'))
            continue
        inst = C.config_instance(C.entrypoint_configurables[ep])
        for opt in eps[ep]['options']:
            if opt == 'Ignore' or opt not in ns:
                continue
            want = flags[opt] if opt in flags else spec_value(ep, eps, asc, opt, getattr(inst, opt))
            if canon(ns[opt]) != canon(want):
                ctx.violation('%s %s: option %s is %r, documented rule gives %r' % (ep, flags, opt, ns[opt], want),
                              dict(data, kind='resolution', option=opt, got=ns[opt], want=want, leg='parser'))
        if 'log_level' in flags and ns.get('log_level') != flags['log_level']:
            ctx.violation('%s: --log-level flag lost' % ep, dict(data, kind='resolution', option='log_level-flag'))
    ctx.cov['correspondence_mismatches'] = len(mism)
    if table_note and not ctx.violations:
        ctx.violation('generated obligation C19.tableOk over the extracted class table no longer checks: ' + table_note,
                      {'kind': 'obligation', 'theorem': 'gen/C19_Tables.lean', 'output': table_note}, found=False, classify=False)
    if mism and not ctx.violations:
        ctx.violation('correspondence Config model <-> build_config broken (%d); first: %s' % (len(mism), json.dumps(mism[0], default=repr)[:400]),
                      {'kind': 'correspondence', 'stream': 'C19 cfg', 'first': mism[0]}, found=False, classify=False)


def replay(path):
    data = json.load(open(path))['data']
    print('replay of C19 cases: re-run ./check C19 quick with corpus entry', json.dumps({'ep': data.get('ep'), 'files': data.get('files')})[:300])
    import nbdime.config as C
    with Dirs() as d:
        d.write(data['files'])
        got = vlib.plain(C.build_config(data['ep']))
    print('build_config ->', got.get(data.get('option')), 'documented rule ->', data.get('want'))
    return 1 if canon(got.get(data.get('option'))) != canon(data.get('want')) else 0
