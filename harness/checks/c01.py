"""C01 notebook diff -> patch reproduces the target notebook; also through nbdiff --out / nbpatch.
Tie: correspondence of diff_notebooks / patch_notebook with the Lean model (diffNotebooks, patch)
using the live differ tables (extracted every run) and recorded oracle answers."""
import copy, io, json, os, subprocess, sys, tempfile
import vlib, gen_nb, nbcfg
from vlib import enc, dec, enc_diff, canon, plain, exc_class
from checks import c02

THEOREMS = ['Nbdime.C01_empty_diff_only_if_equal', 'Nbdime.C01_roundtrip_partial', 'Nbdime.diffAt_sound', 'Nbdime.singleOutputs_sound', 'Nbdime.mimeBundle_sound',
            'Nbdime.attachmentsDiff_sound', 'Nbdime.cfgSound_of_B', 'Nbdime.pinnedNbCfg_sound', 'Nbdime.exNbOracle_ok',
            'Nbdime.compat_pyEq', 'Nbdime.compat_ints'] + c02.THEOREMS + ['Nbdime.join_splitLines']


def lean_differ(d):
    if isinstance(d, str):
        return '.' + d
    return '(.ignoreKeys %s [%s])' % (lean_differ(d[1]), ', '.join(json.dumps(k) for k in d[2]))


def lean_cfg(cfg):
    """the extracted differ tables as a Lean `Cfg` literal"""
    strs = lambda xs: '[' + ', '.join(json.dumps(x) for x in xs) + ']'
    return ('{ predTable := [%s], predDefault := %s, predGuard := %s, differTable := [%s], differDefault := %s, atomicTable := [%s] }'
            % (', '.join('(%s, %s)' % (json.dumps(k), strs(v)) for k, v in cfg['predTable']), strs(cfg['predDefault']), strs(cfg['predGuard']),
               ', '.join('(%s, %s)' % (json.dumps(k), lean_differ(v)) for k, v in cfg['differTable']), lean_differ(cfg['differDefault']),
               ', '.join('(%s, %s)' % (json.dumps(k), 'true' if v else 'false') for k, v in cfg['atomicTable'])))


def table_obligation(ctx):
    """hypothesis `cfgSoundB cfg` of C01_roundtrip_partial, discharged by the kernel for the tables diff_notebooks runs with NOW"""
    try:
        cfg = nbcfg.extract_cfg()
    except nbcfg.UnknownTableEntry as e:
        return 'table extraction: %s' % e
    src = ('import NbdimeProofs\nopen Nbdime\n'
           'def liveCfg : Cfg := %s\n'
           'example : cfgSoundB liveCfg = true := by decide +kernel\n'
           '/-- the theorem instantiated with the live tables -/\n'
           'example (O : Oracle) (hO : OracleOK O) (a b : J) (d : List Op) (ca : a.canonical = true) (cb : b.canonical = true)\n'
           '    (hab : Compat a b) (h : diffNotebooks O liveCfg a b = .ok d) : patch a d = .ok b :=\n'
           '  C01_roundtrip_partial O hO liveCfg (by decide +kernel) a b d ca cb hab h\n' % lean_cfg(cfg))
    ok, out = vlib.lean_run(src, 'C01_Tables.lean')
    ctx.cov['obligations'] += 2
    ctx.cov['extracted_tables'] = {'differTable': cfg['differTable'], 'predTable': [[k, len(v)] for k, v in cfg['predTable']]}
    if ok:
        ctx.cov['discharged'] += 2
        return None
    return out[-600:]


def impl_diffnb(a, b):
    import nbdime
    with vlib.recording() as memo:
        try:
            import nbformat
            d = nbdime.diff_notebooks(nbformat.from_dict(copy.deepcopy(a)), nbformat.from_dict(copy.deepcopy(b)))
            return ('ok', plain(d)), memo
        except Exception as e:
            return ('err', exc_class(e), '%s: %s' % (type(e).__name__, str(e)[:200])), memo


Raised = c02.Raised


def impl_patchnb(a, d):
    """the diff object is applied twice: ('ok', first result, second result, diff serialises the same afterwards)"""
    import nbdime
    from nbdime.diff_utils import to_diffentry_dicts
    try:
        dd = to_diffentry_dicts(copy.deepcopy(d))
        before = json.dumps(plain(dd), sort_keys=True)
        r1 = plain(nbdime.patch_notebook(__import__('nbformat').from_dict(copy.deepcopy(a)), dd))
        try:
            r2 = plain(nbdime.patch_notebook(__import__('nbformat').from_dict(copy.deepcopy(a)), dd))
        except Exception as e:
            r2 = Raised(type(e).__name__)
        return ('ok', r1, r2, before == json.dumps(plain(dd), sort_keys=True))
    except Exception as e:
        return ('err', exc_class(e), str(e)[:200])


def gen_cases(ctx):
    rng = ctx.rng
    cases = []
    cp = os.path.join(vlib.VERIF, 'corpus', 'C01.json')
    if os.path.exists(cp):
        for c in json.load(open(cp)):
            cases.append(('corpus', dec(c['a']), dec(c['b']), ['corpus']))
    n = 220 if ctx.tier == 'quick' else 4000
    for _ in range(n):
        a, b, kinds = gen_nb.pair(rng)
        cases.append(('generated', a, b, kinds))
    for k in range(len(gen_nb.FOCI) * (2 if ctx.tier == 'quick' else 40)):
        a, b, kinds = gen_nb.focused_pair(rng, gen_nb.FOCI[k % len(gen_nb.FOCI)])
        cases.append(('focused', a, b, kinds))
    fx = gen_nb.fixture_notebooks()
    pairs = [(x, y) for x in fx for y in fx]
    if ctx.tier == 'quick':
        pairs = rng.sample(pairs, 40)
    for (na, a), (nb_, b) in pairs:
        cases.append(('fixture', a, b, [na + '->' + nb_]))
    return cases


def check_cases(ctx, cases, cfg=None, prop=None):
    drv = vlib.Driver()
    try:
        cfg = cfg or nbcfg.extract_cfg()
    except nbcfg.UnknownTableEntry as e:
        ctx.violation('differ tables hold an entry the model does not know: %s' % e,
                      {'kind': 'correspondence', 'stream': 'table extraction', 'first': str(e)}, found=False, classify=False)
        cfg = None
    impl, reqs = [], []
    for stream, a, b, kinds in cases:
        r, memo = impl_diffnb(a, b)
        impl.append((r, memo))
        ctx.cov['oracle_contract_checks'] += len(memo.cmp) + len(memo.opcodes)
        for cv in memo.contract_violations:
            ctx.violation('oracle contract violated: ' + cv, {'kind': 'oracle', 'a': enc(a), 'b': enc(b)})
        if cfg is not None:
            reqs.append({'cmd': 'diffnb', 'a': enc(a), 'b': enc(b), 'memo': memo.to_json(), 'cfg': cfg})
        if r[0] == 'ok':
            reqs.append({'cmd': 'patch', 'doc': enc(a), 'diff': enc_diff(r[1])})
    replies = iter(drv.run(reqs))
    mismatches = []
    for (stream, a, b, kinds), (r, memo) in zip(cases, impl):
        m_diff = next(replies) if cfg is not None else None
        ctx.count('stream:' + stream)
        ctx.count('theorem-domain:Compat' if vlib.py_compat(a, b) else 'theorem-domain:outside (F-eq shape)')
        for k in kinds:
            if stream == 'generated':
                ctx.count('edit:' + k)
        ctx.count('minor:%s' % a.get('nbformat_minor'))
        base = {'a': enc(a), 'b': enc(b), 'stream': stream}
        ctx.case(canon(a) + '|' + canon(b), canon(a) != canon(b))
        if r[0] == 'err':
            ctx.violation('diff_notebooks raised %s' % r[2], dict(base, kind='diff-raises', err=r[1], msg=r[2]))
            if m_diff is not None and 'ok' in m_diff:
                mismatches.append(dict(base, kind='corr-diff', impl=list(r), model=m_diff))
            continue
        d = r[1]
        m_patch = next(replies)
        if len(json.dumps(d)) < 1500:
            ctx.sample({'edits': kinds, 'diff': d}, limit=3)
        if prop is not None:
            prop(ctx, a, b, d, m_patch, base)
        else:
            if 'ok' not in m_patch:
                ctx.violation('independent (model) patcher rejects the produced diff: %s' % m_patch,
                              dict(base, kind='model-patch-rejects', diff=enc_diff(d), got=m_patch))
            elif canon(dec(m_patch['ok'])) != canon(b):
                ctx.violation('independent patcher: patch(A, diff(A,B)) != B', dict(base, kind='roundtrip', diff=enc_diff(d), got=m_patch['ok']))
            ip = impl_patchnb(a, d)
            if ip[0] != 'ok':
                ctx.violation('patch_notebook raised on the diff: %s' % (ip,), dict(base, kind='patch-raises', diff=enc_diff(d)))
            elif canon(ip[1]) != canon(b):
                ctx.violation('patch_notebook(A, diff_notebooks(A,B)) != B', dict(base, kind='roundtrip', diff=enc_diff(d), got=enc(ip[1])))
            elif 'ok' in m_patch and canon(dec(m_patch['ok'])) != canon(ip[1]):
                mismatches.append(dict(base, kind='corr-patch', impl=enc(ip[1]), model=m_patch))
            if ip[0] == 'ok' and canon(ip[1]) == canon(b) and (not ip[3] or isinstance(ip[2], Raised) or canon(ip[2]) != canon(b)):
                ctx.violation('the diff no longer describes A -> B after patch_notebook applied it once (%s)' %
                              ('second application: %s' % ('raised ' + ip[2].name if isinstance(ip[2], Raised) else 'different notebook') if ip[3] else 'it serialises differently'),
                              dict(base, kind='reapply', diff=enc_diff(d)))
            if not d and canon(a) != canon(b):
                ctx.violation('empty diff for notebooks that differ', dict(base, kind='empty-diff', got=enc(a)))
            if d and canon(a) == canon(b):
                ctx.violation('non-empty diff for identical notebooks', dict(base, kind='nonempty-diff', diff=enc_diff(d)))
        ctx.cov['traces_validated_against_impl'] += 1
        if m_diff is not None and ('ok' not in m_diff or json.dumps(m_diff['ok'], sort_keys=True) != json.dumps(enc_diff(d), sort_keys=True)):
            mismatches.append(dict(base, kind='corr-diff', impl=enc_diff(d), model=m_diff))
    vlib.check_oracle_hypothesis(ctx, drv, [(memo, {'a': enc(a), 'b': enc(b)}) for (stream, a, b, kinds), (r, memo) in zip(cases, impl)])
    return mismatches


def cli_leg(ctx, n):
    """nbdiff --out d.json A B ; nbpatch -o P A d.json ; P must equal B"""
    import nbformat
    rng = ctx.rng
    env = dict(os.environ, PYTHONPATH=vlib.REPO)
    with tempfile.TemporaryDirectory(prefix='verif-c01-') as td:
        for k in range(n):
            a, b, kinds = gen_nb.pair(rng)
            pa, pb, pd, pp = (os.path.join(td, x) for x in ('a.ipynb', 'b.ipynb', 'd.json', 'p.ipynb'))
            for p, nb in ((pa, a), (pb, b)):
                with io.open(p, 'w', encoding='utf8') as f:
                    json.dump(nb, f)
            r1 = subprocess.run([sys.executable, '-m', 'nbdime.nbdiffapp', '--out', pd, pa, pb], env=env, cwd=td,
                                stdout=subprocess.PIPE, stderr=subprocess.PIPE)
            r2 = subprocess.run([sys.executable, '-m', 'nbdime.nbpatchapp', '-o', pp, pa, pd], env=env, cwd=td,
                                stdout=subprocess.PIPE, stderr=subprocess.PIPE) if r1.returncode == 0 else None
            base = {'a': enc(a), 'b': enc(b), 'stream': 'cli'}
            ctx.case('cli' + canon(a) + canon(b), True)
            ctx.count('cli')
            if r1.returncode != 0 or r2 is None or r2.returncode != 0:
                ctx.violation('nbdiff --out / nbpatch -o failed: %s' % ((r1.stderr or (r2.stderr if r2 else b''))[-300:],),
                              dict(base, kind='cli-fails'))
                continue
            got = plain(nbformat.read(pp, as_version=4))
            want = plain(nbformat.from_dict(copy.deepcopy(b)))
            if canon(got) != canon(want):
                ctx.violation('file interface: nbpatch(A, nbdiff --out(A,B)) != B', dict(base, kind='roundtrip', got=enc(got)))


def run(ctx):
    ctx.cov['rule'] = ('pairs of schema-valid v4 notebooks (minor 0-5): generated base + random edit script '
                       '(insert/delete/move/duplicate/edit source,outputs,metadata,attachments,execution_count) or unrelated, '
                       'plus ordered pairs of the repository fixture notebooks, plus nbdiff --out/nbpatch CLI leg; '
                       'non-trivial = A and B serialise differently; distinct by typed canonical JSON of the pair')
    vlib.audit(ctx, 'NbdimeProofs', THEOREMS)
    table_broken = table_obligation(ctx)
    cases = gen_cases(ctx)
    mismatches = check_cases(ctx, cases)
    cli_leg(ctx, 6 if ctx.tier == 'quick' else 120)
    ctx.cov['correspondence_mismatches'] = len(mismatches)
    if table_broken and not ctx.violations:
        ctx.violation('generated obligation cfgSoundB over the live differ tables (hypothesis of C01_roundtrip_partial) no longer checks: %s' % table_broken,
                      {'kind': 'obligation', 'theorem': 'Nbdime.C01_roundtrip_partial / cfgSoundB (gen/C01_Tables.lean)', 'output': table_broken},
                      found=False, classify=False)
    if mismatches and not ctx.violations:
        ctx.violation('correspondence NbdimeModel.diffNotebooks/patch <-> diff_notebooks/patch_notebook broken (%d cases); first: %s'
                      % (len(mismatches), json.dumps(mismatches[0])[:400]),
                      {'kind': 'correspondence', 'stream': 'C01 diffnb/patch', 'first': mismatches[0], 'count': len(mismatches)},
                      found=False, classify=False)


def replay(path):
    data = json.load(open(path))['data']
    ctx = vlib.Ctx('C01', 'quick', 0)
    if 'a' in data:
        check_cases(ctx, [('replay', dec(data['a']), dec(data['b']), ['replay'])])
    for what, p, found in ctx.violations:
        print('REPRODUCED:', what[:300])
    for k in ctx.known:
        print('KNOWN-FINDING (reproduced):', k['tag'])
    return 1 if (ctx.violations or ctx.known) else 0
