"""Schema-valid v4 notebooks (minor 0-5) as plain dicts in nbformat's in-memory normal form
(multi-line strings joined), plus edit scripts. Every notebook is validated against the installed
nbformat schema of its minor before it is handed out."""
import copy, json, os, functools
import jsonschema

SEPS = ['\n'] * 10 + ['\r\n', '\r', '\x0c', ' ', '\x85', '\x0b', '\x1c']
CODE_LINES = ['import numpy as np', 'x = 1', 'y = x + 1', 'print(x)', 'def f(a):', '    return a * 2', '',
              'for i in range(3):', '    print(i)', 'plt.plot(x, y)', '# comment', 'z = f(y)', 'é = "ü"',
              'df.head()', 'a, b = b, a', 'x = 2', 'print(y)', 'assert z == 4']
MD_LINES = ['# Title', 'Some *text* here.', '', '## Section', '- item one', '- item two', 'Formula $x^2$', 'ünïcödé line',
            'See ![img](attachment:fig.png)', 'Final paragraph.', 'Another sentence follows.']
B64 = ['iVBORw0KGgoAAAANSUhEUgAAAAEAAAABCAYAAAAfFcSJAAAADUlEQVR42mNkYPhfDwAChwGA60e6kgAAAABJRU5ErkJggg==',
       'R0lGODlhAQABAIAAAAAAAP///yH5BAEAAAAALAAAAAABAAEAAAIBRAA7R0lGODlhAQABAIAAAAAAAP///yH5BAEAAAAALAAAAAAB',
       'iVBORw0KGgoAAAANSUhEUgAAAAIAAAACCAYAAABytg0kAAAAFElEQVR42mP8z8BQz0AEYBxVSF+FABJADveWkH6oAAAAAElFTkSu']
IDCHARS = 'abcdefghijklmnopqrstuvwxyzABCDEFGHIJKLMNOPQRSTUVWXYZ0123456789-_'


@functools.lru_cache(None)
def validator(minor):
    import nbformat
    d = os.path.dirname(nbformat.__file__)
    schema = json.load(open(os.path.join(d, 'v4', 'nbformat.v4.%d.schema.json' % minor)))
    return jsonschema.Draft4Validator(schema)


def schema_errors(nb):
    minor = nb.get('nbformat_minor')
    if nb.get('nbformat') != 4 or not isinstance(minor, int) or isinstance(minor, bool) or not 0 <= minor <= 5:
        return ['unsupported nbformat/minor %r.%r' % (nb.get('nbformat'), minor)]
    return [e.message[:200] + ' at /' + '/'.join(str(p) for p in e.absolute_path) for e in validator(minor).iter_errors(nb)][:5]


def is_valid(nb):
    return not schema_errors(nb)


def text(rng, pool, maxlines=6, final_nl=None):
    n = rng.choice([0, 1, 1, 2, 3, 3, 4, maxlines])
    lines = [rng.choice(pool) for _ in range(n)]
    out = []
    for i, ln in enumerate(lines):
        out.append(ln)
        if i < n - 1:
            out.append(rng.choice(SEPS))
    s = ''.join(out)
    if n and (final_nl if final_nl is not None else rng.random() < 0.3):
        s += '\n'
    return s


def new_id(rng, used):
    # nbformat 4.5 cell ids: 1..64 characters of [a-zA-Z0-9-_]; hash-style ids use the full length
    r = rng.random()
    n = 64 if r < 0.12 else rng.randint(51, 63) if r < 0.18 else rng.randint(1, 3) if r < 0.22 else 8
    while True:
        i = ''.join(rng.choice(IDCHARS) for _ in range(n))
        if i not in used:
            used.add(i)
            return i


def gen_metadata_extra(rng, depth=2):
    r = rng.random()
    if depth <= 0 or r < 0.45:
        return rng.choice(['v', 'w', 3, 4, 2.5, None, 'multi\nline', 0, 'x'])
    if r < 0.7:
        kind = rng.random()
        n = rng.choice([1, 2, 3])
        if kind < 0.3:
            return [[rng.choice([1, 2, 3]) for _ in range(rng.choice([1, 2]))] for _ in range(n)]   # list of lists
        if kind < 0.6:
            return [{'k': rng.choice([1, 2, 'q']), 'n': rng.choice(['a', 'b'])} for _ in range(n)]      # list of objects
        return [rng.choice(['t1', 't2', 5, 6]) for _ in range(n)]
    return {k: gen_metadata_extra(rng, depth - 1) for k in rng.sample(['p', 'q', 'r', 'foo'], rng.choice([1, 2]))}


FALSY = [False, None, '', [], {}, 0]


def gen_cell_metadata(rng, ctype):
    md = {}
    if rng.random() < 0.12:
        md['flag'] = copy.deepcopy(rng.choice(FALSY))
    if rng.random() < 0.1:
        md['grid'] = [[rng.randrange(9) for _ in range(rng.choice([0, 1, 2]))] for _ in range(rng.choice([1, 2, 3]))]
    if ctype == 'code':
        if rng.random() < 0.25:
            md['collapsed'] = rng.choice([True, False])
        if rng.random() < 0.2:
            md['scrolled'] = rng.choice([True, False, 'auto'])
    if rng.random() < 0.2:
        md['tags'] = rng.sample(['t1', 't2', 'hide', 'slow'], rng.choice([1, 2]))
    if rng.random() < 0.1:
        md['name'] = rng.choice(['intro', 'setup', 'plot'])
    if rng.random() < 0.2:
        md[rng.choice(['foo', 'extra', 'slideshow'])] = gen_metadata_extra(rng)
    return md


def gen_mimebundle(rng, rich=True):
    b = {}
    if rng.random() < 0.85:
        b['text/plain'] = rng.choice(['<Figure size 432x288 with 1 Axes>', '4', "'abc'", 'array([1, 2, 3])',
                                      '<matplotlib.lines.Line2D at 0x7f3a2c1b4e80>', '<matplotlib.lines.Line2D at 0x7f3a2c1b4f98>',
                                      'line1\nline2\nline3', 'a long textual representation of a value, number %d' % rng.randrange(3)])
    if rich and rng.random() < 0.35:
        b['image/png'] = rng.choice(B64)
    if rich and rng.random() < 0.25:
        b['text/html'] = rng.choice(['<b>bold</b>', '<table>\n<tr><td>1</td></tr>\n</table>', '<div>\n<p>x</p>\n</div>\n'])
    if rich and rng.random() < 0.25:
        b['application/json'] = rng.choice([{'a': 1, 'b': [1, 2]}, [[1, 2], [3]], [{'x': 1}, {'x': 2}], {'table': [[1, 2]]},
                                            {'table': [{'c': 1}]}, {'n': None, 's': 'str'}])
    if rich and rng.random() < 0.1:
        b['application/vnd.custom+json'] = rng.choice([{'v': 1}, {'v': 2}, [1, 2]])
    if rich and rng.random() < 0.1:
        b['image/svg+xml'] = '<svg>\n<circle r="%d"/>\n</svg>' % rng.randrange(3)
    if rich and rng.random() < 0.08:
        b[rng.choice(['image/JPEG', 'text/LaTeX', 'Text/Plain'])] = rng.choice(B64 + ['x^2', 'caps'])
    if rich and rng.random() < 0.04:
        return {}
    if not b:
        b['text/plain'] = 'x'
    return b


def gen_output(rng, ec):
    r = rng.random()
    if r < 0.35:
        return {'output_type': 'stream', 'name': rng.choice(['stdout', 'stdout', 'stderr']),
                'text': text(rng, ['0', '1', '2', 'hello world', 'result: 4', 'warning: deprecated', 'progress 10%\rprogress 20%'], 4, True) or 'x\n'}
    if r < 0.45:
        return {'output_type': 'error', 'ename': rng.choice(['NameError', 'ValueError']),
                'evalue': rng.choice(["name 'q' is not defined", 'bad value']),
                'traceback': [rng.choice(['\x1b[0;31m---------\x1b[0m', 'Traceback (most recent call last)', '  File "<ipython>", line 1',
                                          "NameError: name 'q' is not defined"]) for _ in range(rng.choice([1, 2, 3]))]}
    md = {}
    if rng.random() < 0.3:
        md = rng.choice([{'needs_background': 'light'}, {'image/png': {'width': 100, 'height': 50}}, {'isolated': True}])
    if r < 0.7:
        return {'output_type': 'display_data', 'data': gen_mimebundle(rng), 'metadata': md}
    return {'output_type': 'execute_result', 'data': gen_mimebundle(rng), 'metadata': md, 'execution_count': ec}


def gen_cell(rng, minor, used_ids, ctype=None):
    ctype = ctype or rng.choice(['code', 'code', 'code', 'markdown', 'markdown', 'raw'])
    if ctype == 'code':
        ec = rng.choice([None, 1, 2, 3, 5, 8])
        c = {'cell_type': 'code', 'execution_count': ec, 'metadata': gen_cell_metadata(rng, ctype),
             'outputs': [gen_output(rng, ec) for _ in range(rng.choice([0, 0, 1, 1, 2, 3]))],
             'source': text(rng, CODE_LINES)}
    else:
        c = {'cell_type': ctype, 'metadata': gen_cell_metadata(rng, ctype),
             'source': text(rng, MD_LINES if ctype == 'markdown' else ['raw text', '\\latex{x}', '<html>'])}
        if rng.random() < 0.2:
            c['attachments'] = {name: {rng.choice(['image/png', 'image/png', 'image/JPEG']): rng.choice(B64)} for name in rng.sample(['fig.png', 'a.png', 'b.gif'], rng.choice([1, 2]))}
    if minor >= 5:
        c['id'] = new_id(rng, used_ids)
    return c


def used_ids(nb):
    return {c['id'] for c in nb['cells'] if 'id' in c}


def gen_notebook(rng, minor=None, ncells=None):
    minor = rng.choice([0, 1, 2, 4, 4, 5, 5, 5]) if minor is None else minor
    ncells = rng.choice([0, 1, 2, 3, 4, 5, 6]) if ncells is None else ncells
    used = set()
    md = {}
    if rng.random() < 0.7:
        md['kernelspec'] = {'display_name': 'Python 3', 'language': 'python', 'name': 'python3'}
    if rng.random() < 0.5:
        md['language_info'] = {'name': 'python', 'version': rng.choice(['3.8.1', '3.12.1']), 'file_extension': '.py'}
    if rng.random() < 0.3:
        md[rng.choice(['foo', 'widgets', 'custom'])] = gen_metadata_extra(rng, 3)
    nb = {'cells': [gen_cell(rng, minor, used) for _ in range(ncells)], 'metadata': md, 'nbformat': 4, 'nbformat_minor': minor}
    errs = schema_errors(nb)
    assert not errs, errs
    return nb


# ------------------------------------------------------------------ edits
def edit_text(rng, s, pool):
    lines = s.splitlines(True)
    for _ in range(rng.choice([1, 1, 2, 3])):
        r = rng.random()
        if r < 0.25 and lines:
            del lines[rng.randrange(len(lines))]
        elif r < 0.55:
            pos = rng.randrange(len(lines) + 1)
            if pos == len(lines) and lines and not lines[-1].endswith(('\n', '\r')):
                lines[-1] += '\n'
            lines.insert(pos, rng.choice(pool) + ('\n' if pos < len(lines) or rng.random() < 0.5 else ''))
        elif lines:
            i = rng.randrange(len(lines))
            ln = lines[i]
            body = ln.rstrip('\r\n')
            p = rng.randrange(len(body) + 1)
            lines[i] = body[:p] + rng.choice(['_new', ' + 1', 'X', '  ']) + body[p + rng.choice([0, 0, 1, 3]):] + ln[len(body):]
        else:
            lines.append(rng.choice(pool))
    return ''.join(lines)


def edit_cell(rng, c, what=None):
    """one in-place edit of a cell; returns the kind of edit"""
    kinds = ['source', 'metadata']
    if c['cell_type'] == 'code':
        kinds += ['outputs', 'execution_count', 'rerun', 'source']
    else:
        kinds += ['attachments', 'source']
    k = what or rng.choice(kinds)
    if k == 'source':
        c['source'] = edit_text(rng, c['source'], CODE_LINES if c['cell_type'] == 'code' else MD_LINES)
    elif k == 'metadata':
        md = c['metadata']
        r = rng.random()
        if r < 0.3 and md:
            del md[rng.choice(sorted(md))]
        elif r < 0.5 and c['cell_type'] == 'code':
            md['collapsed'] = not md.get('collapsed', False)
        elif r < 0.7:
            md['tags'] = sorted(set(md.get('tags', [])) ^ {rng.choice(['t1', 't3', 'new'])}) or ['t9']
        elif r < 0.88 and isinstance(md.get('grid'), list):
            # a list of lists gains (or loses) an array-valued item
            g = md['grid']
            if g and rng.random() < 0.3:
                del g[rng.randrange(len(g))]
            else:
                g.insert(rng.randrange(len(g) + 1), rng.choice([[], [7], [7, 8], [[1], 2]]))
        elif r < 0.8:
            # one empty / falsy value replaced by a different one
            md['flag'] = copy.deepcopy(rng.choice([v for v in FALSY if type(v) is not type(md.get('flag', 1)) or v != md.get('flag', 1)]))
        else:
            md[rng.choice(['foo', 'extra'])] = gen_metadata_extra(rng)
    elif k == 'execution_count' and c['cell_type'] == 'code':
        ec = rng.choice([None, 4, 7, 9, 11])
        c['execution_count'] = ec
        for o in c['outputs']:
            if o['output_type'] == 'execute_result':
                o['execution_count'] = ec
    elif k == 'rerun' and c['cell_type'] == 'code':
        ec = (c['execution_count'] or 0) + rng.choice([1, 2, 10])
        c['execution_count'] = ec
        for o in c['outputs']:
            if o['output_type'] == 'execute_result':
                o['execution_count'] = ec
            if o['output_type'] == 'stream' and rng.random() < 0.5:
                o['text'] = edit_text(rng, o['text'], ['0', '1', 'out'])
                if not o['text']:
                    o['text'] = 'x\n'
    elif k == 'outputs' and c['cell_type'] == 'code':
        outs = c['outputs']
        r = rng.random()
        if r < 0.25 and outs:
            del outs[rng.randrange(len(outs))]
        elif r < 0.5:
            outs.insert(rng.randrange(len(outs) + 1), gen_output(rng, c['execution_count']))
        elif outs:
            o = rng.choice(outs)
            if o['output_type'] == 'stream':
                o['text'] = edit_text(rng, o['text'], ['0', '1', 'out']) or 'y\n'
            elif o['output_type'] == 'error':
                o['traceback'] = o['traceback'] + ['extra frame'] if rng.random() < 0.5 else o['traceback'][:-1] or ['tb']
            else:
                r2 = rng.random()
                if r2 < 0.25:
                    # change the value under an existing mime key (whatever its spelling)
                    m = rng.choice(sorted(o['data'])) if o['data'] else None
                    if m is not None:
                        v = o['data'][m]
                        o['data'][m] = (v + rng.choice(['x', '\nmore', 'AAAA'])) if isinstance(v, str) else {'changed': [1, 2]}
                elif r2 < 0.4:
                    o['data'] = gen_mimebundle(rng)
                elif r2 < 0.7:
                    o['metadata'] = rng.choice([{}, {'isolated': True}, {'needs_background': 'dark'}])
                else:
                    for m in sorted(o['data']):
                        if m.startswith('text/') and isinstance(o['data'][m], str):
                            o['data'][m] = edit_text(rng, o['data'][m], ['more', 'text'])
                            break
        else:
            outs.append(gen_output(rng, c['execution_count']))
    elif k == 'attachments' and c['cell_type'] != 'code':
        at = c.get('attachments')
        r = rng.random()
        if at is None:
            c['attachments'] = {'new.png': {'image/png': rng.choice(B64)}}
        elif r < 0.3:
            del c['attachments']
        elif r < 0.6 and at:
            del at[rng.choice(sorted(at))]
            if not at:
                at['z.png'] = {'image/png': rng.choice(B64)}
        elif r < 0.8:
            at[rng.choice(['fig.png', 'c.png'])] = {'image/png': rng.choice(B64)}
        else:
            # change an existing attachment in place, under a capitalised mime key as well
            name = rng.choice(sorted(at))
            at[name] = dict(at[name])
            at[name][rng.choice(['image/png', 'image/JPEG'])] = rng.choice(B64)
    else:
        c['source'] = edit_text(rng, c['source'], CODE_LINES)
        k = 'source'
    return k


def edit_notebook(rng, nb, nedits=None, structural=True, minor_change=False):
    """an edited deep copy (stays schema-valid)"""
    nb = copy.deepcopy(nb)
    minor = nb['nbformat_minor']
    used = used_ids(nb)
    cells = nb['cells']
    kinds = []
    for _ in range(rng.choice([0, 1, 1, 2, 3, 4]) if nedits is None else nedits):
        r = rng.random()
        if structural and r < 0.15:
            cells.insert(rng.randrange(len(cells) + 1), gen_cell(rng, minor, used))
            kinds.append('insert')
        elif structural and r < 0.27 and cells:
            del cells[rng.randrange(len(cells))]
            kinds.append('delete')
        elif structural and r < 0.33 and len(cells) > 1:
            i, j = rng.randrange(len(cells)), rng.randrange(len(cells))
            cells.insert(j, cells.pop(i))
            kinds.append('move')
        elif structural and r < 0.39 and cells:
            c = copy.deepcopy(rng.choice(cells))
            if 'id' in c:
                c['id'] = new_id(rng, used)
            cells.insert(rng.randrange(len(cells) + 1), c)
            kinds.append('duplicate')
        elif r < 0.47:
            md = nb['metadata']
            if rng.random() < 0.3 and md:
                del md[rng.choice(sorted(md))]
            else:
                md[rng.choice(['foo', 'custom', 'extra_md'])] = gen_metadata_extra(rng, 3)
            kinds.append('nbmeta')
        elif cells:
            kinds.append('cell:' + edit_cell(rng, rng.choice(cells)))
    if minor_change and rng.random() < 0.5:
        newminor = rng.choice([m for m in range(minor, 6)])
        if newminor >= 5 > minor:
            for c in cells:
                c['id'] = new_id(rng, used)
        nb['nbformat_minor'] = newminor
        kinds.append('minor')
    errs = schema_errors(nb)
    assert not errs, (errs, kinds)
    return nb, kinds


def inflate(rng, nb):
    """make one text payload of one output longer than the lengths at which the similarity predicates stop comparing
    (TEXT_MIMEDATA_MAX_COMPARE_LENGTH = 10000, STREAM_MAX_COMPARE_LENGTH = 1000); returns True if something was inflated"""
    cands = []
    for c in nb['cells']:
        for o in c.get('outputs', []):
            if o['output_type'] == 'stream':
                cands.append((o, 'text', 1100))
            elif o['output_type'] in ('display_data', 'execute_result'):
                for k, v in o['data'].items():
                    if isinstance(v, str) and (k.startswith('text/') or k.endswith('+xml')) and 'png' not in k:
                        cands.append((o['data'], k, 10500))
    if not cands:
        return False
    holder, key, n = rng.choice(cands)
    filler = ''.join('<tr><td>row %d of a long table</td></tr>\n' % i for i in range(n // 36 + 2))
    holder[key] = holder[key] + ('' if holder[key].endswith('\n') or not holder[key] else '\n') + filler
    return True


def pair(rng, minor=None):
    a = gen_notebook(rng, minor)
    if rng.random() < 0.06:
        inflate(rng, a)
    if rng.random() < 0.8:
        b, kinds = edit_notebook(rng, a)
    else:
        b, kinds = gen_notebook(rng, a['nbformat_minor']), ['unrelated']
    return a, b, kinds


def triple(rng, minor=None, minor_change=False):
    # one notebook in twelve is long (boundaries, chunks and indices beyond a handful of cells)
    base = gen_notebook(rng, minor, ncells=rng.choice([16, 20, 33, 41]) if rng.random() < 0.08 else None)
    if rng.random() < 0.04:
        inflate(rng, base)
    l, kl = edit_notebook(rng, base, minor_change=minor_change)
    r, kr = edit_notebook(rng, base, minor_change=minor_change)
    return base, l, r, kl + kr


def fixture_notebooks():
    """the repo's own test notebooks (read through nbformat, converted to v4, as plain dicts)"""
    import nbformat, glob, vlib
    out = []
    for p in sorted(glob.glob(os.path.join(vlib.REPO, 'nbdime', 'tests', 'files', '*.ipynb'))):
        try:
            nb = vlib.plain(nbformat.read(p, as_version=4))
            if is_valid(nb):
                out.append((os.path.basename(p), nb))
        except Exception:
            pass
    return out


# ------------------------------------------------------------------ targeted three-way scenarios
SCENARIOS = ['concurrent-insert', 'concurrent-insert', 'delete-vs-edit', 'same-line', 'different-lines', 'both-outputs', 'both-metadata',
             'insert-next-to-edit', 'delete-vs-transient', 'same-change', 'both-nbmeta', 'both-attachments', 'minor', 'replace-vs-transient', 'remove-output-vs-transient', 'dup-around-shared',
             'replace-vs-insert', 'two-conflict-regions', 'output-mixed-keys', 'minor-down', 'remove-key-vs-transient', 'stale-conflict-record', 'meta-nested-mixed', 'same-inline-edit-plus-insert', 'exotic-text-both', 'similar-insert-attachments', 'concurrent-insert-uneven', 'both-cell-ids', 'line-insert-vs-remove', 'same-change-alias']


def similar_cell(rng, c, used):
    """a copy of c that the similarity heuristics still align with c (small source edit)"""
    d = copy.deepcopy(c)
    if 'id' in d:
        d['id'] = new_id(rng, used)
    lines = d['source'].splitlines(True)
    if lines and rng.random() < 0.6:
        i = rng.randrange(len(lines))
        body = lines[i].rstrip('\r\n')
        lines[i] = body + rng.choice([' # tweak', ' ', 'x']) + lines[i][len(body):]
        d['source'] = ''.join(lines)
    elif d['cell_type'] == 'code':
        d['execution_count'] = (d.get('execution_count') or 0) + 1
        for o in d['outputs']:
            if o['output_type'] == 'execute_result':
                o['execution_count'] = d['execution_count']
    else:
        d['metadata'] = dict(d['metadata'], tags=['sim'])
    if rng.random() < 0.35:
        # both similar cells carry a metadata key the schema gives a type, with different values
        key = rng.choice(['tags', 'name', 'collapsed', 'scrolled'] if d['cell_type'] == 'code' else ['tags', 'name'])
        va, vb = {'tags': (['a', 'b'], ['b', 'c']), 'name': ('first', 'second'), 'collapsed': (True, False),
                  'scrolled': (rng.choice([True, 'auto']), False)}[key]
        c['metadata'] = dict(c['metadata'], **{key: va})
        d['metadata'] = dict(d['metadata'], **{key: vb})
    if d['cell_type'] != 'code' and rng.random() < 0.4:
        # similar cells whose attachments differ: other names, or one name with other content
        c['attachments'] = {'logo.png': {'image/png': B64[0]}, 'shared.png': {'image/png': B64[1]}}
        d['attachments'] = rng.choice([{'plot.png': {'image/png': B64[2]}}, {'logo.png': {'image/png': B64[2]}},
                                       {'shared.png': {'image/png': B64[1]}, 'extra.png': {'image/png': B64[0]}}])
        if rng.random() < 0.5:
            c['attachments'], d['attachments'] = d['attachments'], c['attachments']
    return d


def long_cell(rng, minor, used, ctype=None):
    """a cell with enough source for the similarity heuristics to be meaningful"""
    c = gen_cell(rng, minor, used, ctype)
    pool = CODE_LINES if c['cell_type'] == 'code' else MD_LINES
    c['source'] = '\n'.join(rng.sample(pool, min(len(pool), rng.choice([3, 4, 6])))) + rng.choice(['', '\n'])
    return c


def triple_scenario(rng, minor=None, first=None):
    """(base, local, remote, [scenario names]) exercising the conflict arms of the merger"""
    minor = rng.choice([4, 5, 5, 2]) if minor is None else minor
    used = set()
    base = gen_notebook(rng, minor, ncells=0)
    base['cells'] = [long_cell(rng, minor, used) for _ in range(rng.choice([1, 2, 3, 4]))]
    l, r = copy.deepcopy(base), copy.deepcopy(base)
    names = []
    for step in range(rng.choice([1, 1, 2, 3])):
        sc = rng.choice(SCENARIOS)
        if step == 0 and first is not None:
            sc = first
        names.append(sc)
        n = min(len(l['cells']), len(r['cells']))
        common = [i for i in range(min(n, len(base['cells']))) if l['cells'][i].get('source') == r['cells'][i].get('source') == base['cells'][i].get('source')
                  and l['cells'][i]['cell_type'] == r['cells'][i]['cell_type'] == base['cells'][i]['cell_type']]
        if sc in ('concurrent-insert', 'concurrent-insert-uneven'):
            p = rng.randrange(n + 1)
            xs = [long_cell(rng, minor, used) for _ in range(rng.choice([0, 0, 1, 2, 3]))]
            ys = [long_cell(rng, minor, used) for _ in range(rng.choice([0, 0, 1, 2, 3]))]
            if sc == 'concurrent-insert-uneven' and len(xs) == len(ys):
                # runs of unrelated cells of different lengths in front of the similar pair
                (xs if rng.random() < 0.5 else ys).append(long_cell(rng, minor, used))
            s = long_cell(rng, minor, used)
            tail_l = [long_cell(rng, minor, used) for _ in range(rng.choice([0, 0, 1, 3]))]
            tail_r = [long_cell(rng, minor, used) for _ in range(rng.choice([0, 0, 1]))]
            if rng.random() < 0.7 or sc == 'concurrent-insert-uneven':
                l['cells'][p:p] = xs + [s] + tail_l
                r['cells'][p:p] = ys + [similar_cell(rng, s, used)] + tail_r
            else:
                l['cells'][p:p] = xs + tail_l or [s]
                r['cells'][p:p] = ys + tail_r or [long_cell(rng, minor, used)]
        elif sc == 'similar-insert-attachments':
            # both sides insert a similar markdown / raw cell at one position; the two cells carry different attachments
            # (the inline-cells strategy combines them into one cell)
            p = rng.randrange(n + 1)
            s = long_cell(rng, minor, used, rng.choice(['markdown', 'markdown', 'raw']))
            t = similar_cell(rng, s, used)
            if 'attachments' not in s:
                s['attachments'] = {'logo.png': {'image/png': B64[0]}, 'shared.png': {'image/png': B64[1]}}
                t['attachments'] = rng.choice([{'plot.png': {'image/png': B64[2]}}, {'logo.png': {'image/png': B64[2]}},
                                               {'shared.png': {'image/png': B64[1]}, 'extra.png': {'image/png': B64[0]}}])
            if rng.random() < 0.5:
                s, t = t, s
            l['cells'][p:p] = [s]
            r['cells'][p:p] = [t]
        elif not common:
            continue
        elif sc == 'delete-vs-edit':
            i = rng.choice(common)
            a, b_ = (l, r) if rng.random() < 0.5 else (r, l)
            del a['cells'][i]
            edit_cell(rng, b_['cells'][i], rng.choice(['source', 'source', 'metadata', 'outputs']) if b_['cells'][i]['cell_type'] == 'code' else 'source')
            break
        elif sc == 'dup-around-shared':
            # both sides insert the same piece at one position; one side surrounds it with two identical runs
            # (blank lines, separators, identical stream outputs): two equal one-sided decisions
            i = rng.choice(common)
            a, b_ = (l, r) if rng.random() < 0.5 else (r, l)
            ca, cb = a['cells'][i], b_['cells'][i]
            if ca['cell_type'] == 'code' and rng.random() < 0.4:
                dup = {'output_type': 'stream', 'name': 'stdout', 'text': rng.choice(['----\n', '\n', 'sep\n'])}
                shared = {'output_type': 'stream', 'name': 'stderr', 'text': 'shared %d\n' % rng.randrange(9)}
                p_ = rng.randrange(len(ca['outputs']) + 1)
                ca['outputs'][p_:p_] = [copy.deepcopy(dup), copy.deepcopy(shared), copy.deepcopy(dup)]
                cb['outputs'][p_:p_] = [copy.deepcopy(shared)]
            else:
                lines = ca['source'].splitlines(True)
                if lines and not lines[-1].endswith('\n'):
                    lines[-1] += '\n'
                p_ = rng.randrange(len(lines) + 1)
                dup = rng.choice(['\n', '---\n', '# sep\n'])
                shared = 'import shared%d\n' % rng.randrange(9)
                ca['source'] = ''.join(lines[:p_] + [dup, shared, dup] + lines[p_:])
                cb['source'] = ''.join(lines[:p_] + [shared] + lines[p_:])
                base['cells'][i]['source'] = ''.join(lines)
            break
        elif sc == 'delete-vs-transient':
            i = rng.choice(common)
            a, b_ = (l, r) if rng.random() < 0.5 else (r, l)
            c = b_['cells'][i]
            if c['cell_type'] == 'code':
                del a['cells'][i]
                edit_cell(rng, c, 'rerun')
                c['metadata']['collapsed'] = not c['metadata'].get('collapsed', False)
                if rng.random() < 0.5:
                    edit_cell(rng, c, 'source')
                break
        elif sc == 'replace-vs-transient':
            cands = [i for i in common if l['cells'][i]['cell_type'] == 'code']
            if cands:
                i = rng.choice(cands)
                a, b_ = (l, r) if rng.random() < 0.5 else (r, l)
                a['cells'][i] = long_cell(rng, minor, used)          # replaced by something dissimilar
                c = b_['cells'][i]
                if rng.random() < 0.5:
                    edit_cell(rng, c, 'rerun')
                else:
                    c['metadata']['collapsed'] = not c['metadata'].get('collapsed', False)
                break
        elif sc == 'remove-output-vs-transient':
            cands = [i for i in common if l['cells'][i]['cell_type'] == 'code']
            if cands:
                i = rng.choice(cands)
                ec = rng.choice([1, 2, 3])
                out = {'output_type': 'execute_result', 'data': {'text/plain': 'result %d' % rng.randrange(9)}, 'metadata': {}, 'execution_count': ec}
                for nb in (base, l, r):
                    nb['cells'][i]['outputs'] = nb['cells'][i]['outputs'] + [copy.deepcopy(out)]
                    nb['cells'][i]['execution_count'] = ec
                a, b_ = (l, r) if rng.random() < 0.5 else (r, l)
                a['cells'][i]['outputs'].pop()                       # one side removes the output
                b_['cells'][i]['outputs'][-1]['execution_count'] = ec + 5   # the other only re-ran it
                if rng.random() < 0.5:
                    b_['cells'][i]['execution_count'] = ec + 5
        elif sc == 'same-line':
            i = rng.choice(common)
            lines = l['cells'][i]['source'].splitlines(True)
            if lines:
                k = rng.randrange(len(lines))
                body = lines[k].rstrip('\r\n')
                end = lines[k][len(body):]
                l['cells'][i]['source'] = ''.join(lines[:k] + [body + ' LOCAL-EDIT' + end] + lines[k + 1:])
                r['cells'][i]['source'] = ''.join(lines[:k] + ['REMOTE-EDIT ' + body + end] + lines[k + 1:])
        elif sc == 'different-lines':
            i = rng.choice(common)
            lines = l['cells'][i]['source'].splitlines(True)
            if len(lines) >= 3:
                l['cells'][i]['source'] = ''.join(['first local\n'] + lines)
                r['cells'][i]['source'] = ''.join(lines[:-1] + [lines[-1].rstrip('\r\n') + ' remote-tail' + ('\n' if lines[-1].endswith('\n') else '')])
        elif sc == 'both-outputs':
            cands = [i for i in common if l['cells'][i]['cell_type'] == 'code']
            if cands:
                i = rng.choice(cands)
                edit_cell(rng, l['cells'][i], rng.choice(['outputs', 'rerun']))
                edit_cell(rng, r['cells'][i], rng.choice(['outputs', 'rerun', 'execution_count']))
        elif sc == 'both-metadata':
            code = [j for j in common if l['cells'][j]['cell_type'] == 'code']
            i = rng.choice(code) if code and rng.random() < 0.8 else rng.choice(common)
            edit_cell(rng, l['cells'][i], 'metadata')
            edit_cell(rng, r['cells'][i], 'metadata')
            if rng.random() < 0.8 and l['cells'][i]['cell_type'] == 'code':
                # transient metadata keys changed on both sides, present in base or not
                vals = rng.sample([True, False, 'auto'], 3)
                if rng.random() < 0.75:
                    base['cells'][i]['metadata']['scrolled'] = vals[0]
                l['cells'][i]['metadata']['scrolled'] = vals[1]
                r['cells'][i]['metadata']['scrolled'] = vals[2]
                if rng.random() < 0.3:
                    base['cells'][i]['metadata']['collapsed'] = False
                    l['cells'][i]['metadata']['collapsed'] = True
                    r['cells'][i]['metadata'].pop('collapsed', None)
        elif sc == 'insert-next-to-edit':
            i = rng.choice(common)
            edit_cell(rng, l['cells'][i], 'source')
            r['cells'].insert(i + rng.choice([0, 1]), long_cell(rng, minor, used))
            break
        elif sc == 'same-change':
            i = rng.choice(common)
            edit_cell(rng, l['cells'][i], 'source')
            r['cells'][i] = copy.deepcopy(l['cells'][i])
        elif sc == 'both-nbmeta':
            l['metadata']['foo'] = gen_metadata_extra(rng)
            r['metadata']['foo'] = gen_metadata_extra(rng)
        elif sc == 'stale-conflict-record':
            # the base still carries the `nbdime-conflicts` record an earlier conflicted merge left in a metadata dict
            # (with content, emptied by hand, or null); the sides keep / remove / edit it and conflict on another key
            metas = [(base['metadata'], l['metadata'], r['metadata'])] + \
                    [(base['cells'][i]['metadata'], l['cells'][i]['metadata'], r['cells'][i]['metadata']) for i in common]
            mb, ml, mr = rng.choice(metas)
            rec = rng.choice([{'local_diff': [{'op': 'replace', 'key': 'k', 'value': 1}], 'remote_diff': [{'op': 'replace', 'key': 'k', 'value': 2}]}, {}, None])
            for m in (mb, ml, mr):
                m['nbdime-conflicts'] = copy.deepcopy(rec)
            for m in (ml, mr):
                act = rng.choice(['keep', 'remove', 'edit'])
                if act == 'remove':
                    del m['nbdime-conflicts']
                elif act == 'edit':
                    m['nbdime-conflicts'] = {'local_diff': [], 'remote_diff': [], 'note': rng.choice(['x', 'y'])}
            mb['owner'] = 'base'
            ml['owner'] = 'local'
            mr['owner'] = 'remote'
        elif sc == 'meta-nested-mixed':
            # inside one metadata dict: the sides edit different fields of the same sub-dict (no conflict, two decisions
            # with patch entries on one key once a strategy lifts them) and conflict on another key of that dict
            metas = [(base['metadata'], l['metadata'], r['metadata'])] + \
                    [(base['cells'][i]['metadata'], l['cells'][i]['metadata'], r['cells'][i]['metadata']) for i in common]
            mb, ml, mr = rng.choice(metas)
            for m in (mb, ml, mr):
                m['kernel'] = {'display_name': 'Python 3', 'name': 'python3', 'env': {'a': 1, 'b': 2}}
                m['lang'] = {'version': '3.8.1'}
            ml['kernel']['display_name'] = 'Python 3 (local)'
            mr['kernel']['name'] = 'py-remote'
            if rng.random() < 0.5:
                ml['kernel']['env']['a'] = 10
                mr['kernel']['env']['b'] = 20
            ml['lang']['version'] = '3.9.' + str(rng.randrange(9))
            mr['lang']['version'] = '3.10.' + str(rng.randrange(9))
        elif sc == 'same-inline-edit-plus-insert':
            # both sides make the same in-line edit at the start of one line (often line 0); one side also inserts a
            # line right at that position: an agreed character-level decision on a line path next to a line-level one
            cands = [i for i in common if len(base['cells'][i]['source'].splitlines()) >= 2]
            if cands:
                i = rng.choice(cands)
                lines = base['cells'][i]['source'].splitlines(True)
                k = 0 if rng.random() < 0.5 else rng.randrange(len(lines))
                if len(lines[k].rstrip('\r\n')) >= 4:
                    body = lines[k].rstrip('\r\n')
                    new = rng.choice([lines[k][2:], lines[k][2:], '  ' + lines[k], body + '  # same tweak' + lines[k][len(body):],
                                      body[:len(body) // 2] + '_' + body[len(body) // 2:] + lines[k][len(body):]])
                    both = lines[:k] + [new] + lines[k + 1:]
                    a, b_ = (l, r) if rng.random() < 0.5 else (r, l)
                    a['cells'][i]['source'] = ''.join(both)
                    ins = rng.choice(['inserted = %d\n' % rng.randrange(99), '# a new first line\n'])
                    b_['cells'][i]['source'] = ''.join(lines[:k] + [ins, new] + lines[k + 1:]) if rng.random() < 0.7 else ''.join(both)
        elif sc == 'exotic-text-both':
            # both sides edit one text field whose base version holds a separator that only str.splitlines knows
            # (progress bars write bare \r): the line-based string merge must split it the way the differ did
            sep = rng.choice(['\r', '\x0b', '\x0c', '\x1c', '\x85', '\u2028'])
            text = 'step 1 of 3' + sep + 'step 2 of 3' + sep + 'step 3 of 3\nelapsed 1.0s\nfinal line\n'
            tl, tr = text.replace('1.0s', '1.2s'), text.replace('1.0s', '0.9s').replace('final line', 'final line!')
            cands = [i for i in common if base['cells'][i]['cell_type'] == 'code']
            where = rng.choice(['stream', 'metadata', 'source']) if cands else rng.choice(['metadata', 'source'])
            if where == 'stream':
                i = rng.choice(cands)
                for nb, t in ((base, text), (l, tl), (r, tr)):
                    nb['cells'][i]['outputs'] = [{'output_type': 'stream', 'name': 'stderr', 'text': t}]
            elif where == 'metadata':
                for nb, t in ((base, text), (l, tl), (r, tr)):
                    nb['metadata']['note'] = t
            else:
                i = rng.choice(common)
                for nb, t in ((base, text), (l, tl), (r, tr)):
                    nb['cells'][i]['source'] = t
        elif sc == 'both-attachments':
            cands = [i for i in common if l['cells'][i]['cell_type'] != 'code']
            if cands:
                i = rng.choice(cands)
                l['cells'][i]['attachments'] = {'fig.png': {'image/png': B64[0]}}
                r['cells'][i]['attachments'] = {'fig.png': {'image/png': B64[1]}, 'r.png': {'image/png': B64[2]}}
        elif sc == 'replace-vs-insert':
            # one side replaces an item by something dissimilar (remove + insert), the other only inserts at that position
            i = rng.choice(common)
            a, b_ = (l, r) if rng.random() < 0.5 else (r, l)
            ca, cb = a['cells'][i], b_['cells'][i]
            if ca['cell_type'] == 'code' and ca['outputs'] and rng.random() < 0.4:
                k = rng.randrange(len(ca['outputs']))
                ca['outputs'][k] = {'output_type': 'stream', 'name': 'stderr', 'text': 'replaced %d\n' % rng.randrange(99)}
                cb['outputs'].insert(k, {'output_type': 'stream', 'name': 'stdout', 'text': 'inserted %d\n' % rng.randrange(99)})
            else:
                lines = ca['source'].splitlines(True)
                if lines:
                    if not lines[-1].endswith('\n'):
                        lines[-1] += '\n'
                        base['cells'][i]['source'] = ''.join(lines)
                    k = rng.randrange(len(lines))
                    ca['source'] = ''.join(lines[:k] + ['@@@@ %d ~~~~ !!!!\n' % rng.randrange(99)] + lines[k + 1:])
                    cb['source'] = ''.join(lines[:k] + ['zzzz = qqqq(%d)\n' % rng.randrange(99)] + lines[k:])
            break
        elif sc == 'same-change-alias':
            # both sides make "the same" change, but the new values are equal only for Python's == (1 / True / 1.0)
            va, vb = rng.choice([(1, True), (True, 1), (0, False), (2, 2.0), (1.0, 1)])
            where = rng.choice(['nbmeta', 'cellmeta'])
            if where == 'nbmeta' or not common:
                base['metadata']['enabled'] = 5
                l['metadata']['enabled'] = va
                r['metadata']['enabled'] = vb
            else:
                i = rng.choice(common)
                base['cells'][i]['metadata']['level'] = 7
                l['cells'][i]['metadata']['level'] = va
                r['cells'][i]['metadata']['level'] = vb
        elif sc == 'both-cell-ids':
            # both sides give one cell another id (or both add one where the base, an older format, has none)
            i = rng.choice(common)
            if 'id' in base['cells'][i]:
                l['cells'][i]['id'] = new_id(rng, used)
                r['cells'][i]['id'] = new_id(rng, used)
            elif base['nbformat_minor'] < 5:
                for nb in (l, r):
                    nb['nbformat_minor'] = 5
                    for c in nb['cells']:
                        c.setdefault('id', new_id(rng, used))
        elif sc == 'line-insert-vs-remove':
            # inside one list below a cell (source lines or outputs): one side inserts an item directly in front of an item
            # the other side removes or changes
            i = rng.choice(common)
            c = base['cells'][i]
            a, b_ = (l, r) if rng.random() < 0.5 else (r, l)
            if c['cell_type'] == 'code' and c['outputs'] and rng.random() < 0.4:
                k = rng.randrange(len(c['outputs']))
                a['cells'][i]['outputs'].insert(k, {'output_type': 'stream', 'name': 'stdout', 'text': 'inserted %d\n' % rng.randrange(99)})
                if rng.random() < 0.5:
                    del b_['cells'][i]['outputs'][k]
                else:
                    o = b_['cells'][i]['outputs'][k]
                    if o['output_type'] == 'stream':
                        o['text'] = o['text'] + 'changed\n'
                    else:
                        del b_['cells'][i]['outputs'][k]
            else:
                lines = c['source'].splitlines(True)
                while len(lines) < 4:
                    lines.append('pad_%d = %d\n' % (len(lines), rng.randrange(99)))
                lines = [x if x.endswith('\n') else x + '\n' for x in lines]
                for nb in (base, l, r):
                    nb['cells'][i]['source'] = ''.join(lines)
                k = rng.randrange(1, len(lines) - 1)
                a['cells'][i]['source'] = ''.join(lines[:k] + ['NEW_%d = 1\n' % rng.randrange(99)] + lines[k:])
                if rng.random() < 0.5:
                    b_['cells'][i]['source'] = ''.join(lines[:k] + lines[k + 1:])
                else:
                    b_['cells'][i]['source'] = ''.join(lines[:k] + [lines[k].rstrip('\n') + ' # edited\n'] + lines[k + 1:])
            break
        elif sc == 'two-conflict-regions':
            # both sides rewrite two non-adjacent lines of one cell differently
            i = rng.choice(common)
            lines = base['cells'][i]['source'].splitlines(True)
            target = rng.choice([5, 6, 10, 14, 20])      # long cells: the rewritten lines end up in separate hunks of the text merge helpers
            while len(lines) < target:
                lines.append('keep_%d = %d\n' % (len(lines), rng.randrange(99)))
            lines = [x if x.endswith('\n') else x + '\n' for x in lines]
            base['cells'][i]['source'] = ''.join(lines)
            k1, k2 = 0, len(lines) - 1
            if len(lines) > 6 and rng.random() < 0.5:
                k1, k2 = 1, len(lines) - 2
            for nb, tag in ((l, 'LOCAL'), (r, 'REMOTE')):
                ls = list(lines)
                ls[k1] = '%s_first = %d\n' % (tag.lower(), rng.randrange(99))
                ls[k2] = '%s_last = %d\n' % (tag.lower(), rng.randrange(99))
                if len(ls) >= 14 and rng.random() < 0.5:
                    ls[len(ls) // 2] = '%s_middle = %d\n' % (tag.lower(), rng.randrange(99))
                nb['cells'][i]['source'] = ''.join(ls)
            break
        elif sc == 'output-mixed-keys':
            # both sides patch the same output; one key is changed on both sides (differently), another by one side only
            cands = [i for i in common if l['cells'][i]['cell_type'] == 'code' and l['cells'][i]['outputs'] == r['cells'][i]['outputs'] == base['cells'][i]['outputs']]
            if cands:
                i = rng.choice(cands)
                ec = rng.choice([1, 2, 3])
                rows = ['row %d  %d.%02d' % (q, rng.randrange(9), rng.randrange(99)) for q in range(rng.choice([4, 6, 8]))]
                out = {'output_type': 'execute_result', 'data': {'text/plain': '\n'.join(rows), 'text/html': '<table>\n' + '\n'.join('<tr><td>%s</td></tr>' % x for x in rows) + '\n</table>'},
                       'metadata': {}, 'execution_count': ec}
                pos = rng.randrange(len(base['cells'][i]['outputs']) + 1)
                for nb in (base, l, r):
                    nb['cells'][i]['outputs'].insert(pos, copy.deepcopy(out))
                    nb['cells'][i]['execution_count'] = ec
                a, b_ = (l, r) if rng.random() < 0.5 else (r, l)
                q = rng.randrange(len(rows))
                da, db = a['cells'][i]['outputs'][pos]['data'], b_['cells'][i]['outputs'][pos]['data']
                da['text/plain'] = da['text/plain'].replace(rows[q], rows[q] + '1')       # small edits: the outputs stay aligned
                da['text/html'] = da['text/html'].replace(rows[q], rows[q] + '1')
                db['text/plain'] = db['text/plain'].replace(rows[q], rows[q] + '7')
                if rng.random() < 0.4:
                    a['cells'][i]['outputs'][pos]['metadata'] = {'isolated': True}
        elif sc == 'remove-key-vs-transient':
            # one side removes a transient metadata key, the other gives it another value
            cands = [i for i in common if l['cells'][i]['cell_type'] == 'code']
            if cands:
                i = rng.choice(cands)
                key = rng.choice(['collapsed', 'scrolled', 'autoscroll'])
                for nb in (base, l, r):
                    nb['cells'][i]['metadata'][key] = False
                a, b_ = (l, r) if rng.random() < 0.5 else (r, l)
                del a['cells'][i]['metadata'][key]
                b_['cells'][i]['metadata'][key] = True
        elif sc == 'minor-down':
            # an older client re-saves the notebook: lower minor version on one side (ids stripped), possibly another minor on the other
            if base['nbformat_minor'] >= 1:
                a, b_ = (l, r) if rng.random() < 0.5 else (r, l)
                a['nbformat_minor'] = rng.randrange(0, base['nbformat_minor'])
                if rng.random() < 0.5:
                    b_['nbformat_minor'] = rng.choice([m for m in range(0, 6) if m not in (base['nbformat_minor'], a['nbformat_minor'])])
        elif sc == 'minor':
            for nb in (l, r):
                newminor = rng.choice([m for m in range(nb['nbformat_minor'], 6)])
                if newminor >= 5 > nb['nbformat_minor']:
                    for c in nb['cells']:
                        c.setdefault('id', new_id(rng, used))
                nb['nbformat_minor'] = newminor
    for nb in (base, l, r):
        for c in nb['cells']:
            if nb['nbformat_minor'] >= 5:
                c.setdefault('id', new_id(rng, used))
            else:
                c.pop('id', None)
        errs = schema_errors(nb)
        assert not errs, (errs, names)
    return base, l, r, names


_rot = [0]


SWEEP_REPS = 3


def any_triple(rng, minor=None, minor_change=False):
    """the first len(scenarios) * SWEEP_REPS calls on one generator sweep every conflict scenario (each repetition shifted by
    one, so that a caller cycling through strategies / helpers with its own counter meets every scenario with every
    residue); after that 70 % scenarios in rotation, 30 % independent random edit scripts"""
    n = getattr(rng, '_verif_calls', 0)
    rng._verif_calls = n + 1
    scen = sorted(set(SCENARIOS))
    if n < len(scen) * SWEEP_REPS:
        return triple_scenario(rng, minor, first=scen[(n + n // len(scen)) % len(scen)])
    if rng.random() < 0.7:
        _rot[0] += 1           # rotate through the scenarios so that every kind occurs in a short run
        return triple_scenario(rng, minor, first=SCENARIOS[_rot[0] % len(SCENARIOS)])
    return triple(rng, minor, minor_change)


# ------------------------------------------------------------------ focused pairs for the differ

STRING_BASES = ['empty', 'one-line-no-nl', 'one-line-nl', 'multi-no-nl', 'multi-nl']
STRING_EDITS = ['append-lines', 'edit-first-end+append', 'edit-first-start+prepend', 'edit-last-end+append', 'prepend-lines', 'drop-last',
                'drop-first+edit-second', 'toggle-final-nl', 'edit-middle', 'edit-first-end', 'edit-every-line']


def string_shapes(rng, pool=None):
    """systematic (label, a, b) string pairs: every base shape (empty / one line / several lines, with and without a final
    newline) x every edit shape (in-line edits at the start / end of the first / last line next to line insertions,
    removals, final-newline toggles). These are the shapes on which the line-level and the character-level entries of a
    string diff meet at one position."""
    pool = pool or CODE_LINES
    out = []
    for bs in STRING_BASES:
        n = {'empty': 0, 'one-line-no-nl': 1, 'one-line-nl': 1}.get(bs, rng.choice([2, 3, 4]))
        lines = [rng.choice([x for x in pool if x]) + (' # %d' % i if rng.random() < 0.5 else '') for i in range(n)]
        final = bs.endswith('-nl') and not bs.endswith('no-nl')
        a = '\n'.join(lines) + ('\n' if final and lines else '')
        for ed in STRING_EDITS:
            ls = list(lines)
            fin = final
            new = lambda: rng.choice([x for x in pool if x]) + ' # new%d' % rng.randrange(100)
            if ed == 'append-lines':
                ls += [new() for _ in range(rng.choice([1, 2]))]
            elif ed == 'edit-first-end+append':
                if ls:
                    ls[0] += rng.choice([' as np', '2', ' + 1'])
                ls += [new() for _ in range(rng.choice([1, 2]))]
            elif ed == 'edit-first-start+prepend':
                if ls:
                    ls[0] = rng.choice(['>>> ', '# ', 'x']) + ls[0]
                ls.insert(0, new())
            elif ed == 'edit-last-end+append':
                if ls:
                    ls[-1] += rng.choice([';', ' + 2'])
                ls.append(new())
            elif ed == 'prepend-lines':
                ls = [new() for _ in range(rng.choice([1, 2]))] + ls
            elif ed == 'drop-last':
                ls = ls[:-1]
            elif ed == 'drop-first+edit-second':
                ls = ls[1:]
                if ls:
                    ls[0] = ls[0][:len(ls[0]) // 2] + 'X' + ls[0][len(ls[0]) // 2:]
            elif ed == 'toggle-final-nl':
                fin = not fin
            elif ed == 'edit-middle':
                if ls:
                    i = len(ls) // 2
                    ls[i] = ls[i][:2] + '_mid_' + ls[i][2:]
            elif ed == 'edit-first-end':
                if ls:
                    ls[0] += 'Z'
            elif ed == 'edit-every-line':
                ls = [x + '!' for x in ls]
            if ed != 'toggle-final-nl' and rng.random() < 0.3:
                fin = not fin
            b = '\n'.join(ls) + ('\n' if fin and ls else '')
            if a != b:
                out.append((bs + '/' + ed, a, b))
    return out


FOCI = ['caps-mime-output', 'caps-mime-attachment', 'empty-data', 'json-mime-change', 'text-mime-lines', 'stream-seps', 'traceback', 'svg-change',
        'output-metadata', 'custom-json-mime', 'falsy-change', 'list-valued-insert']


def focused_pair(rng, focus=None):
    """(a, b, [focus]): b differs from a in one aligned output / attachment, chosen to hit a specific differ branch"""
    focus = focus or rng.choice(FOCI)
    minor = rng.choice([4, 5])
    used = set()
    a = gen_notebook(rng, minor, ncells=0)
    a['cells'] = [long_cell(rng, minor, used, 'code' if i == 0 else None) for i in range(rng.choice([1, 2, 3]))]
    c = a['cells'][0]
    ec = c['execution_count']
    out = {'output_type': 'execute_result', 'data': {'text/plain': 'value'}, 'metadata': {}, 'execution_count': ec}
    mk = None
    if focus == 'caps-mime-output':
        mk = rng.choice(['image/JPEG', 'text/LaTeX', 'Text/Plain', 'Application/JSON'])
        out['data'][mk] = '{"k": [1]}' if mk == 'Application/JSON' else rng.choice(B64 if mk == 'image/JPEG' else ['x^2\ny', 'plain text'])
    elif focus == 'empty-data':
        out['data'] = {}
    elif focus == 'json-mime-change':
        out['data']['application/json'] = {'rows': [[1, 2], [3, 4]], 'n': 1}
    elif focus == 'custom-json-mime':
        out['data']['application/vnd.custom+json'] = {'v': [1, 2, 3]}
    elif focus == 'text-mime-lines':
        out['data']['text/html'] = '<table>\n<tr><td>1</td></tr>\n<tr><td>2</td></tr>\n</table>'
    elif focus == 'svg-change':
        out['data']['image/svg+xml'] = '<svg>\n<circle r="1"/>\n<rect/>\n</svg>'
    elif focus == 'output-metadata':
        out['metadata'] = {'image/png': {'width': 10}}
    falsy_at = None
    if focus == 'falsy-change':
        # a key held on both sides changes from one empty / falsy value to a different one
        falsy_at = rng.choice(['nb', 'cell', 'output'])
        v0 = copy.deepcopy(rng.choice(FALSY))
        {'nb': a['metadata'], 'cell': c['metadata'], 'output': out['metadata']}[falsy_at]['flag'] = v0
    if focus == 'list-valued-insert':
        c['metadata']['grid'] = [[1, 2], [3, 4]]
    if focus == 'stream-seps':
        out = {'output_type': 'stream', 'name': 'stdout', 'text': 'a\rb\r\nc\x0cd\ne'}
    if focus == 'traceback':
        out = {'output_type': 'error', 'ename': 'E', 'evalue': 'v', 'traceback': ['line one', 'line two', 'line three']}
    c['outputs'] = [out] + c['outputs'][:1]
    if focus == 'caps-mime-attachment':
        md = long_cell(rng, minor, used, 'markdown')
        md['attachments'] = {'fig.png': {'image/JPEG': B64[0], 'image/png': B64[1]}}
        a['cells'].append(md)
    b = copy.deepcopy(a)
    bo = b['cells'][0]['outputs'][0]
    if focus == 'caps-mime-output':
        v = bo['data'][mk]
        bo['data'][mk] = {'k': [1, 2]} if isinstance(v, dict) else (B64[2] if v in B64 else v + '\nmore')
    elif focus == 'empty-data':
        if rng.random() < 0.5:
            bo['metadata'] = {'isolated': True}
        else:
            b['cells'][0]['source'] += '\n# touched'
    elif focus == 'json-mime-change':
        bo['data']['application/json']['rows'][1] = [3, 5]
    elif focus == 'custom-json-mime':
        bo['data']['application/vnd.custom+json'] = {'v': [1, 2, 4]}
    elif focus == 'text-mime-lines':
        bo['data']['text/html'] = bo['data']['text/html'].replace('<td>2</td>', '<td>22</td>')
    elif focus == 'svg-change':
        bo['data']['image/svg+xml'] = bo['data']['image/svg+xml'].replace('r="1"', 'r="2"')
    elif focus == 'output-metadata':
        bo['metadata'] = {'image/png': {'width': 20}}
    elif focus == 'falsy-change':
        holder = {'nb': b['metadata'], 'cell': b['cells'][0]['metadata'], 'output': bo['metadata']}[falsy_at]
        holder['flag'] = copy.deepcopy(rng.choice([v for v in FALSY if type(v) is not type(holder['flag']) and (v, holder['flag']) not in ((0, False), (False, 0))]))
    elif focus == 'list-valued-insert':
        g = b['cells'][0]['metadata']['grid']
        g.insert(rng.randrange(3), copy.deepcopy(rng.choice([[], [7], [[5]], {'k': [6]}])))
    elif focus == 'stream-seps':
        bo['text'] = 'a\rB\r\nc\x0cd\ne\n'
    elif focus == 'traceback':
        bo['traceback'] = ['line one', 'line 2', 'line three', 'four']
    elif focus == 'caps-mime-attachment':
        b['cells'][-1]['attachments']['fig.png']['image/JPEG'] = B64[2]
    for nb in (a, b):
        errs = schema_errors(nb)
        assert not errs, (errs, focus)
    return a, b, ['focus:' + focus]
