"""Structured generators for generic JSON documents (C02/C05/C11/C13)."""
import copy, itertools

SEPS = ['\n', '\r', '\r\n', '\x0b', '\x0c', '\x1c', '\x1d', '\x1e', '\x85', ' ', ' ']
WORDS = ['a', 'b', 'ab', 'x = 1', 'print(x)', 'def f():', '  return 2', 'é', '', 'zz', 'import os', 'y = x + 1']
KEYS = ['a', 'b', 'c', 'k', 'data', 'key/with', 'z']
ALIAS = [True, 1, 1.0, False, 0, 0.0]


def gen_string(rng, aliasfree=True, maxlines=5):
    n = rng.choice([0, 1, 1, 2, 3, 3, 4, maxlines])
    parts = []
    for i in range(n):
        parts.append(rng.choice(WORDS))
        if i < n - 1 or rng.random() < 0.6:
            parts.append(rng.choice(SEPS) if rng.random() < 0.5 else '\n')
    return ''.join(parts)


def gen_scalar(rng, alias):
    r = rng.random()
    if r < 0.25:
        return rng.choice([0, 1, 2, 3, -1, 7, 10 ** 20]) if not alias else rng.choice(ALIAS)
    if r < 0.35:
        return rng.choice([1.5, -2.25, 0.1, 1e-7, 3.0e20]) if not alias else rng.choice(ALIAS)
    if r < 0.45:
        return None
    if r < 0.55:
        return rng.choice([True, False]) if alias else rng.choice(['t', 'f'])
    return gen_string(rng, maxlines=3) if r < 0.75 else rng.choice(WORDS)


def gen_value(rng, depth=3, alias=False):
    r = rng.random()
    if depth <= 0 or r < 0.4:
        return gen_scalar(rng, alias)
    if r < 0.7:
        return [gen_value(rng, depth - 1, alias) for _ in range(rng.choice([0, 1, 2, 2, 3, 4]))]
    return {k: gen_value(rng, depth - 1, alias) for k in rng.sample(KEYS, rng.choice([0, 1, 2, 3]))}


def gen_container(rng, kind, depth=3, alias=False):
    if kind == 'list':
        out = [gen_value(rng, depth - 1, alias) for _ in range(rng.choice([0, 1, 2, 3, 4, 6]))]
        if out and rng.random() < 0.15:
            x = rng.choice(out)
            out.insert(rng.randrange(len(out) + 1), str(x) if not isinstance(x, str) else [x])
        return out
    if kind == 'dict':
        return {k: gen_value(rng, depth - 1, alias) for k in rng.sample(KEYS, rng.choice([0, 1, 2, 3, 4]))}
    return gen_string(rng)


def mutate(rng, v, depth=3, alias=False):
    """an edited copy of v (same container kind at the top)"""
    v = copy.deepcopy(v)
    if isinstance(v, list):
        for _ in range(rng.choice([0, 1, 1, 2, 3])):
            r = rng.random()
            if r < 0.3 and v:
                del v[rng.randrange(len(v))]
            elif r < 0.6:
                v.insert(rng.randrange(len(v) + 1), gen_value(rng, depth - 1, alias))
            elif r < 0.66 and v:
                v.insert(rng.randrange(len(v) + 1), copy.deepcopy(rng.choice(v)))
            elif r < 0.72 and v:
                # an item next to its own textual form ("2" beside 2, "None" beside None, "[1]" beside [1])
                x = rng.choice(v)
                v.insert(rng.randrange(len(v) + 1), str(x) if not isinstance(x, str) else [x])
            elif r < 0.8 and len(v) > 1:
                i, j = rng.randrange(len(v)), rng.randrange(len(v))
                v.insert(j, v.pop(i))
            elif v:
                i = rng.randrange(len(v))
                v[i] = mutate(rng, v[i], depth - 1, alias)
        return v
    if isinstance(v, dict):
        for _ in range(rng.choice([0, 1, 1, 2, 3])):
            r = rng.random()
            if r < 0.3 and v:
                del v[rng.choice(sorted(v))]
            elif r < 0.55:
                v[rng.choice(KEYS)] = gen_value(rng, depth - 1, alias)
            elif v:
                k = rng.choice(sorted(v))
                v[k] = mutate(rng, v[k], depth - 1, alias)
        return v
    if isinstance(v, str):
        lines = v.splitlines(True)
        for _ in range(rng.choice([1, 1, 2, 3])):
            r = rng.random()
            if r < 0.3 and lines:
                del lines[rng.randrange(len(lines))]
            elif r < 0.6:
                lines.insert(rng.randrange(len(lines) + 1), rng.choice(WORDS) + rng.choice(SEPS + ['\n'] * 6))
            elif lines:
                i = rng.randrange(len(lines))
                ln = lines[i]
                p = rng.randrange(len(ln) + 1)
                lines[i] = ln[:p] + rng.choice(['q', 'xy', ' ', '']) + ln[min(len(ln), p + rng.choice([0, 0, 1, 2])):]
        return ''.join(lines)
    if rng.random() < 0.5:
        return gen_scalar(rng, alias)
    return v


def pair(rng, alias=False):
    kind = rng.choice(['list', 'list', 'dict', 'dict', 'str'])
    a = gen_container(rng, kind, alias=alias)
    if rng.random() < 0.75:
        b = mutate(rng, a, alias=alias)
    else:
        b = gen_container(rng, kind, alias=alias)
    return a, b


def small_values(alphabet):
    """all documents with at most 3 nodes over the alphabet (lists and dicts with key 'a','b')"""
    leaves = list(alphabet)
    docs = []
    for n in range(0, 3):
        for items in itertools.product(leaves, repeat=n):
            docs.append(list(copy.deepcopy(items)))
    for x in leaves:
        docs.append({'a': copy.deepcopy(x)})
    for x, y in itertools.product(leaves, repeat=2):
        docs.append({'a': copy.deepcopy(x), 'b': copy.deepcopy(y)})
    docs.append({})
    for x in leaves:
        docs.append([[copy.deepcopy(x)]])
        docs.append([{'a': copy.deepcopy(x)}])
        docs.append({'a': [copy.deepcopy(x)]})
    return docs
