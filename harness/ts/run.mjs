// usage: node --import ./loader.mjs run.mjs <packages/nbdime/src>   (jobs as JSON on stdin)
import fs from 'node:fs';
import path from 'node:path';
import { pathToFileURL } from 'node:url';
const src = process.argv[2];
const imp = (p) => import(pathToFileURL(path.join(src, p)).href);
const { patch } = await imp('patch/generic.ts');
const dec = await imp('merge/decisions.ts');
const util = await imp('common/util.ts');
console.warn = () => {};
console.log = () => {};
const jobs = JSON.parse(fs.readFileSync(0, 'utf8'));
const out = [];
for (const job of jobs) {
  try {
    if (job.kind === 'patch') {
      out.push({ ok: true, value: patch(job.base, job.diff) });
    } else if (job.kind === 'splitlines') {
      out.push({ ok: true, value: util.splitLines(job.text) });
    } else {
      const mds = job.decisions.map((d) => new dec.MergeDecision(d));
      out.push({ ok: true, value: dec.applyDecisions(job.base, mds) });
    }
  } catch (e) {
    out.push({ ok: false, error: String(e).slice(0, 300) });
  }
}
process.stdout.write(JSON.stringify(out));
