// Loads the repository's TypeScript sources under node >= 22.13 without a compiler:
// type stripping by node itself, `.ts` resolution, and stubs for the two npm packages
// (@lumino/coreutils JSONExt.deepCopy, json-stable-stringify) that are not installed.
import { registerHooks, stripTypeScriptTypes } from 'node:module';
import fs from 'node:fs';
import { fileURLToPath, pathToFileURL } from 'node:url';

const STUBS = {
  'stub:lumino': `export const JSONExt = { deepCopy: (v) => (v === undefined ? v : JSON.parse(JSON.stringify(v))) };`,
  'stub:stable': `
    function sortKeys(v) {
      if (Array.isArray(v)) return v.map(sortKeys);
      if (v && typeof v === 'object') { const o = {}; for (const k of Object.keys(v).sort()) o[k] = sortKeys(v[k]); return o; }
      return v;
    }
    export default function stableStringify(v, opts) { return JSON.stringify(sortKeys(v), null, opts && opts.space); }`,
};

function rewriteImports(src) {
  // named imports may mention type-only names that do not exist at run time
  let n = 0;
  return src.replace(/^import\s*\{([^}]*)\}\s*from\s*(['"][^'"]+['"]);?/gm, (m, names, spec) => {
    const id = '__ns' + n++;
    const parts = names.split(',').map((s) => s.trim()).filter(Boolean)
      .map((s) => s.replace(/^type\s+/, '').replace(/\s+as\s+/, ': '));
    return `import * as ${id} from ${spec}; const { ${parts.join(', ')} } = ${id};`;
  });
}

registerHooks({
  resolve(specifier, context, nextResolve) {
    if (specifier === '@lumino/coreutils') return { url: 'stub:lumino', shortCircuit: true, format: 'module' };
    if (specifier === 'json-stable-stringify') return { url: 'stub:stable', shortCircuit: true, format: 'module' };
    if (specifier.startsWith('.') && context.parentURL && context.parentURL.startsWith('file:')) {
      const base = fileURLToPath(new URL(specifier, context.parentURL));
      for (const cand of [base + '.ts', base + '/index.ts']) {
        if (fs.existsSync(cand)) return { url: pathToFileURL(cand).href, shortCircuit: true, format: 'module' };
      }
    }
    return nextResolve(specifier, context);
  },
  load(url, context, nextLoad) {
    if (url in STUBS) return { format: 'module', source: STUBS[url], shortCircuit: true };
    if (url.endsWith('.ts')) {
      let src = fs.readFileSync(fileURLToPath(url), 'utf8');
      src = src.replace(/^import\s+type\s[^;]*;/gm, '');
      src = rewriteImports(src);
      src = stripTypeScriptTypes(src, { mode: 'transform' });
      return { format: 'module', source: src, shortCircuit: true };
    }
    return nextLoad(url, context);
  },
});
