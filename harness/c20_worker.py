"""Worker for C20: starts the real nbdime web application (tornado, 127.0.0.1, random port) in this
process with stub jinja2 / jupyter_server packages, sends a sequence of requests and records status,
body and a snapshot of every file under the scratch tree before and after each request."""
import asyncio, hashlib, json, os, sys
HERE = os.path.dirname(os.path.abspath(__file__))
sys.path.insert(0, os.path.join(HERE, 'stubs'))
job = json.load(sys.stdin)
root = job['root']
os.chdir(job.get('start_cwd', root))
import logging
logging.disable(logging.CRITICAL)
from tornado import httpserver, netutil
from tornado.httpclient import AsyncHTTPClient, HTTPRequest
from nbdime.webapp.nbdimeserver import make_app


def snapshot():
    out = {}
    for d, _, fs in os.walk(root):
        for f in fs:
            p = os.path.join(d, f)
            try:
                out[os.path.relpath(p, root)] = hashlib.sha1(open(p, 'rb').read()).hexdigest()
            except OSError:
                out[os.path.relpath(p, root)] = 'unreadable'
    return out


results = []


async def session(port, requests=None, results=results):
    client = AsyncHTTPClient()
    for r in (job['requests'] if requests is None else requests):
        before = snapshot()
        req = HTTPRequest('http://127.0.0.1:%d%s' % (port, r['path']), method=r['method'],
                          body=(r.get('body') or '').encode('utf8') if r['method'] == 'POST' else None,
                          headers=r.get('headers') or {}, request_timeout=60)
        try:
            resp = await client.fetch(req, raise_error=False)
            body = resp.body.decode('utf8', 'replace') if resp.body else ''
            results.append({'status': resp.code, 'body': body[:200000], 'before': before, 'after': snapshot()})
        except Exception as e:
            results.append({'status': -1, 'body': repr(e)[:300], 'before': before, 'after': snapshot()})
        await asyncio.sleep(0)


def main():
    loop = asyncio.new_event_loop()
    asyncio.set_event_loop(loop)
    params = dict(job['params'])
    if job.get('stream_args') and 'difftool_args' in params:
        # what `nbdiff-web <ref> <ref>` / git difftool pass for git revisions: in-memory blob streams or open files
        import io
        streams = {}
        for k, name in params['difftool_args'].items():
            path = os.path.join(params['cwd'], name)
            if job['stream_args'] == 'open-file' and k == 'remote':
                streams[k] = io.open(path, encoding='utf8')
            else:
                st = io.StringIO(io.open(path, encoding='utf8').read())
                st.name = name
                streams[k] = st
        params['difftool_args'] = streams
    # other servers of this process, started (and used) before the one under observation
    for warm in job.get('warmup', []):
        wapp = make_app(**warm['params'])
        wsockets = netutil.bind_sockets(0, '127.0.0.1')
        wserver = httpserver.HTTPServer(wapp)
        wserver.add_sockets(wsockets)
        wtask = loop.create_task(session(wsockets[0].getsockname()[1], warm['requests'], []))
        wtask.add_done_callback(lambda t: loop.stop())
        loop.run_forever()
        if not wtask.done():
            try:
                loop.run_until_complete(asyncio.wait_for(asyncio.shield(wtask), 2))
            except Exception:
                pass
        wserver.stop()
    app = make_app(**params)
    sockets = netutil.bind_sockets(0, '127.0.0.1')
    server = httpserver.HTTPServer(app)
    server.add_sockets(sockets)
    port = sockets[0].getsockname()[1]
    task = loop.create_task(session(port))
    task.add_done_callback(lambda t: loop.stop())
    loop.run_forever()
    stopped_by_server = not task.done()
    if stopped_by_server:
        # the close handler stopped the loop: let the pending response finish
        try:
            loop.run_until_complete(asyncio.wait_for(asyncio.shield(task), 2))
        except Exception:
            pass
    json.dump({'results': results, 'stopped_by_server': stopped_by_server, 'exit_code': getattr(app, 'exit_code', None),
               'answered': len(results)}, sys.stdout)


main()
