"""Extraction of the live notebook differ tables (`notebook_predicates`, `notebook_differs`,
atomic paths) into the data form the Lean model takes (Cfg)."""
import operator
import vlib


class UnknownTableEntry(Exception):
    pass


def differ_name(fn):
    import nbdime.diffing.generic as G
    import nbdime.diffing.notebooks as N
    import nbdime.diffing.sequences as S
    table = [(G.diff, 'generic'), (G.diff_sequence_multilevel, 'multilevel'), (G.diff_string_lines, 'stringLines'),
             (S.diff_strings_by_char, 'stringsByChar'), (N.diff_single_outputs, 'singleOutputs'),
             (N.diff_attachments, 'attachments'), (N.diff_ignore, 'ignore')]
    for f, n in table:
        if fn is f:
            return n
    code = getattr(fn, '__code__', None)
    if code is not None and set(code.co_freevars) == {'ignore_keys', 'inner_differ'} and fn.__name__ == 'ignored_diff':
        cells = dict(zip(code.co_freevars, (c.cell_contents for c in fn.__closure__)))
        return ['ignoreKeys', differ_name(cells['inner_differ']), sorted(str(k) for k in cells['ignore_keys'])]
    raise UnknownTableEntry('differ %r' % (fn,))


def pred_name(fn):
    if fn is operator.__eq__:
        return 'eq'
    n = getattr(fn, '_verif_name', None)
    if n is None:
        raise UnknownTableEntry('predicate %r is not wrapped by the recorder' % (fn,))
    return n


def extract_cfg():
    import nbdime.diffing.notebooks as N
    vlib.install_recorders()
    P, D = N.notebook_predicates, N.notebook_differs
    preds = dict(P.default_values)
    preds.update(dict.items(P))
    differs = dict(D.default_values)
    differs.update(dict.items(D))
    return {
        'predTable': [[k, [pred_name(f) for f in v]] for k, v in sorted(preds.items())],
        'predDefault': [pred_name(f) for f in P.default_factory()],
        'predGuard': sorted(dict.keys(P)),
        'differTable': [[k, differ_name(v)] for k, v in sorted(differs.items())],
        'differDefault': differ_name(D.default_factory()),
        'atomicTable': [[k, bool(v)] for k, v in sorted(N.notebook_config._atomic_paths.items())],
    }
