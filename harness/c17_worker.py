"""Worker for C17: runs nbdime.gitfiles.changed_notebooks in a given directory of a given
repository and reports the pairs it yields and the working directory afterwards (JSON on stdout)."""
import json, os, sys
job = json.load(sys.stdin)
os.chdir(job['cwd'])
from nbdime.gitfiles import changed_notebooks, GitRefIndex, GitRefWorkingTree
from nbdime.utils import EXPLICIT_MISSING_FILE


def ref(r):
    return GitRefIndex if r == 'INDEX' else GitRefWorkingTree if r == 'WORKTREE' else r


def show(s):
    if s == EXPLICIT_MISSING_FILE:
        return 'missing'
    name = getattr(s, 'name', '')
    data = s.read()
    try:
        s.close()
    except Exception:
        pass
    return ['stream', str(name), data]


out = {'pairs': [], 'error': None}
before = os.getcwd()
try:
    out['cwd_during'] = []
    for a, b in changed_notebooks(ref(job['base']), ref(job['remote']), job.get('paths') or None):
        # the caller's directory while it consumes the (lazy) result
        out['cwd_during'].append(os.getcwd())
        out['pairs'].append([show(a), show(b)])
except Exception as e:
    out['error'] = '%s: %s' % (type(e).__name__, str(e)[:300])
out['cwd_before'] = before
out['cwd_after'] = os.getcwd()
json.dump(out, sys.stdout)
