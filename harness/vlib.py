"""Shared machinery of the /verif checks: codec for the Lean driver, oracle recording,
evidence / violation / known-finding reporting, Lean build + axiom audit."""
import contextlib, copy, fcntl, hashlib, json, math, os, random, re, subprocess, sys, time

VERIF = os.path.dirname(os.path.dirname(os.path.abspath(__file__)))
REPO = os.environ.get('VERIF_REPO', '/repo')
LEAN = os.path.join(VERIF, 'lean')
DRIVER = os.path.join(LEAN, '.lake', 'build', 'bin', 'driver')
ALLOWED_AXIOMS = {'propext', 'Classical.choice', 'Quot.sound'}
TRUSTED_BASE = [
    'Lean 4.33.0 kernel (lake build; thorough tier re-checks with leanchecker)',
    'axioms: subset of {propext, Classical.choice, Quot.sound} (audited with #print axioms on every run); no sorry/admit/native_decide/bv_decide/own axioms',
    'hand-written Lean model tied to /repo by the differential correspondence run of this check (bounded by generated cases)',
    'harness codec (Python<->tagged JSON) and table extractors',
]

if REPO not in sys.path:
    sys.path.insert(0, REPO)
os.environ.setdefault('NBDIME_VERIF', '1')
import warnings
warnings.filterwarnings('ignore')
import logging
logging.getLogger('nbdime').setLevel(logging.CRITICAL)
logging.getLogger('nbdime').addHandler(logging.NullHandler())
logging.getLogger('nbdime').propagate = False


class Infra(Exception):
    """infrastructure failure: exit 2, never a VIOLATION"""


# ----------------------------------------------------------------------------- codec
def enc(v):
    """Python JSON value -> tagged JSON for the Lean driver"""
    if v is None or v is True or v is False:
        return v
    if isinstance(v, bool):
        return bool(v)
    if isinstance(v, int):
        return {"i": str(v)}
    if isinstance(v, float):
        if math.isnan(v) or math.isinf(v):
            raise ValueError('NaN/Infinity are outside the model')
        return {"f": repr(v)}
    if isinstance(v, str):
        v.encode('utf-8')  # lone surrogates are outside the model
        return v
    if isinstance(v, (list, tuple)):
        return [enc(x) for x in v]
    if isinstance(v, dict):
        for k in v:
            if not isinstance(k, str):
                raise ValueError('non-string key')
        return {"o": [[k, enc(v[k])] for k in sorted(v)]}
    raise ValueError('not a JSON value: %r' % type(v))


def dec(j):
    if j is None or j is True or j is False:
        return j
    if isinstance(j, str):
        return j
    if isinstance(j, list):
        return [dec(x) for x in j]
    if isinstance(j, dict):
        if 'i' in j:
            return int(j['i'])
        if 'f' in j:
            return float(j['f'])
        if 'o' in j:
            return {k: dec(v) for k, v in j['o']}
    raise ValueError('bad tagged json %r' % (j,))


def enc_op(e):
    op, key = e.get('op'), e.get('key')
    try:
        if isinstance(key, str):
            if op == 'add':
                return ['add', key, enc(e['value'])]
            if op == 'remove':
                return ['remove', key]
            if op == 'replace':
                return ['replace', key, enc(e['value'])]
            if op == 'patch':
                return ['patch', key, enc_diff(e['diff'])]
        elif isinstance(key, int) and not isinstance(key, bool) and key >= 0:
            if op == 'addrange':
                vl = e['valuelist']
                if isinstance(vl, str):
                    return ['addchars', key, vl]
                return ['addrange', key, [enc(x) for x in vl]]
            if op == 'removerange':
                ln = e['length']
                if isinstance(ln, int) and not isinstance(ln, bool) and ln >= 0:
                    return ['removerange', key, ln]
            if op == 'patch':
                return ['patchi', key, enc_diff(e['diff'])]
    except (KeyError, TypeError):
        pass
    return ['invalid', 'op=%r key=%r' % (op, key)]


def enc_diff(d):
    if d is None:
        return None
    return [enc_op(e) for e in d]


def dec_op(j):
    t = j[0]
    if t == 'add':
        return {'op': 'add', 'key': j[1], 'value': dec(j[2])}
    if t == 'remove':
        return {'op': 'remove', 'key': j[1]}
    if t == 'replace':
        return {'op': 'replace', 'key': j[1], 'value': dec(j[2])}
    if t == 'patch':
        return {'op': 'patch', 'key': j[1], 'diff': dec_diff(j[2])}
    if t == 'addrange':
        return {'op': 'addrange', 'key': j[1], 'valuelist': [dec(x) for x in j[2]]}
    if t == 'addchars':
        return {'op': 'addrange', 'key': j[1], 'valuelist': j[2]}
    if t == 'removerange':
        return {'op': 'removerange', 'key': j[1], 'length': j[2]}
    if t == 'patchi':
        return {'op': 'patch', 'key': j[1], 'diff': dec_diff(j[2])}
    return {'op': 'invalid', 'what': j[1]}


def dec_diff(j):
    return [dec_op(x) for x in j]


def canon(v):
    """typed canonical JSON text: 1, 1.0 and true are three different texts"""
    return json.dumps(enc(v), sort_keys=True, ensure_ascii=True, separators=(',', ':'))


def canon_diff(d):
    return json.dumps(enc_diff(d), sort_keys=True, ensure_ascii=True, separators=(',', ':'))


def plain(v):
    """NotebookNode / DiffEntry trees -> plain dict/list (deep copy)"""
    if isinstance(v, dict):
        return {k: plain(x) for k, x in v.items()}
    if isinstance(v, (list, tuple)):
        return [plain(x) for x in v]
    return v


EXC_CLASS = {'AssertionError': 'AssertionError', 'NBDiffFormatError': 'NBDiffFormatError',
             'RuntimeError': 'RuntimeError', 'ValueError': 'ValueError', 'TypeError': 'TypeError',
             'KeyError': 'KeyError', 'IndexError': 'IndexError', 'AttributeError': 'KeyError'}


def exc_class(e):
    return EXC_CLASS.get(type(e).__name__, type(e).__name__)


# ----------------------------------------------------------------------------- driver
class Driver:
    """batch interface to the native Lean driver"""
    def __init__(self):
        if not os.path.exists(DRIVER):
            raise Infra('Lean driver not built: ' + DRIVER)

    def run(self, requests, timeout=1800):
        data = '\n'.join(json.dumps(r, ensure_ascii=False, separators=(',', ':')) for r in requests) + '\n'
        p = subprocess.run([DRIVER], input=data.encode('utf-8'), stdout=subprocess.PIPE,
                           stderr=subprocess.PIPE, timeout=timeout)
        if p.returncode != 0:
            raise Infra('driver exited %d: %s' % (p.returncode, p.stderr.decode()[:500]))
        lines = p.stdout.decode('utf-8').splitlines() if False else p.stdout.decode('utf-8').split('\n')
        if lines and lines[-1] == '':
            lines.pop()
        if len(lines) != len(requests):
            raise Infra('driver returned %d replies for %d requests' % (len(lines), len(requests)))
        out = []
        for ln in lines:
            r = json.loads(ln)
            if 'bad' in r:
                raise Infra('driver rejected a request: ' + r['bad'][:300])
            out.append(r)
        return out


# ----------------------------------------------------------------------------- oracle recording
class Memo:
    """records answers of similarity predicates and difflib during one implementation call"""
    def __init__(self):
        self.vals, self.index, self.cmp, self.opcodes = [], {}, [], []
        self._seen_cmp, self._seen_op = {}, set()
        self.contract_violations = []
        self.active = True

    def _ix(self, v):
        k = canon(v)
        i = self.index.get(k)
        if i is None:
            i = self.index[k] = len(self.vals)
            self.vals.append(enc(v))
        return i

    def add_cmp(self, name, x, y, ans):
        if not self.active:
            return
        try:
            key = (name, self._ix(plain(x)), self._ix(plain(y)))
        except ValueError:
            return
        prev = self._seen_cmp.get(key)
        if prev is None:
            self._seen_cmp[key] = bool(ans)
            self.cmp.append([name, key[1], key[2], bool(ans)])
        elif prev != bool(ans):
            self.contract_violations.append('K1 %s not deterministic' % name)

    def add_opcodes(self, a, b, ocs):
        if not self.active or (a, b) in self._seen_op:
            return
        self._seen_op.add((a, b))
        self.opcodes.append([a, b, [list(o) for o in ocs]])
        # K4: opcodes tile both strings in order, equal blocks are equal text
        i = j = 0
        for tag, i1, i2, j1, j2 in ocs:
            if i1 != i or j1 != j or i2 < i1 or j2 < j1 or (tag == 'equal' and a[i1:i2] != b[j1:j2]):
                self.contract_violations.append('K4 difflib opcodes do not tile')
            i, j = i2, j2
        if i != len(a) or j != len(b):
            self.contract_violations.append('K4 difflib opcodes do not cover')

    def to_json(self):
        return {'vals': self.vals, 'cmp': self.cmp, 'opcodes': self.opcodes}


_current = [None]
_installed = [False]


def install_recorders():
    """wrap the heuristic predicates / difflib once per process (monkey-patching only)"""
    if _installed[0]:
        return
    _installed[0] = True
    import nbdime.diffing.generic as G
    import nbdime.diffing.notebooks as N
    import nbdime.diffing.seq_difflib as SD

    def rec(name, fn):
        def wrapper(*a, **kw):
            r = fn(*a, **kw)
            m = _current[0]
            if m is not None and len(a) == 2 and not kw:
                m.add_cmp(name, a[0], a[1], r)
            return r
        wrapper.__name__ = name
        wrapper._verif_orig = fn
        wrapper._verif_name = name
        return wrapper

    G.compare_strings_approximate = rec('compare_strings_approximate', G.compare_strings_approximate)
    for path, lst in N.notebook_predicates.default_values.items():
        for k, fn in enumerate(list(lst)):
            if fn is not __import__('operator').__eq__:
                lst[k] = rec(fn.__name__, fn)

    class RecSM(SD.SequenceMatcher):
        def get_opcodes(self):
            r = super().get_opcodes()
            m = _current[0]
            if m is not None and isinstance(self.a, str) and isinstance(self.b, str):
                m.add_opcodes(self.a, self.b, r)
            return r
    SD.SequenceMatcher = RecSM


@contextlib.contextmanager
def recording():
    install_recorders()
    m = Memo()
    prev = _current[0]
    _current[0] = m
    try:
        yield m
    finally:
        _current[0] = prev


# ----------------------------------------------------------------------------- run context
class Ctx:
    def __init__(self, pid, tier, seed):
        self.pid, self.tier, self.seed = pid, tier, seed
        self.rng = random.Random('%s/%s/%d' % (pid, tier, seed))
        self.t0 = time.time()
        self.violations = []      # (what, replay_path, found_input)
        self.known = []
        self.cov = {'evaluations': 0, 'distinct_nontrivial': 0, 'rule': '', 'samples': [],
                    'obligations': 0, 'discharged': 0, 'checker_cmd': '', 'trusted_base': list(TRUSTED_BASE),
                    'distribution': {}, 'traces_validated_against_impl': 0, 'oracle_contract_checks': 0}
        self.assumptions = []
        self._distinct = set()
        self.findings = load_known_findings().get(pid, [])

    def count(self, key, n=1):
        d = self.cov['distribution']
        d[key] = d.get(key, 0) + n

    def case(self, ident, nontrivial):
        self.cov['evaluations'] += 1
        if nontrivial:
            h = hashlib.sha1(ident.encode('utf-8', 'replace')).hexdigest()
            if h not in self._distinct:
                self._distinct.add(h)
                self.cov['distinct_nontrivial'] = len(self._distinct)

    def sample(self, s, limit=4):
        if len(self.cov['samples']) < limit:
            self.cov['samples'].append(s)

    def violation(self, what, data, found=True, classify=True):
        """report a property violation; consult known findings first"""
        if classify:
            for f in self.findings:
                if f.get('status') == 'fixed':
                    continue
                fn = CLASSIFIERS.get(f.get('classifier'))
                if fn is not None and fn(data, f):
                    if f['tag'] not in [k['tag'] for k in self.known]:
                        self.known.append(f)
                    self.count('known-finding:' + f['tag'])
                    return False
        blob = json.dumps(data, sort_keys=True, default=repr)
        h = hashlib.sha1(blob.encode()).hexdigest()[:12]
        path = os.path.join('replays', '%s-%s.json' % (self.pid, h))
        if len(self.violations) < 5:
            os.makedirs(os.path.join(VERIF, 'replays'), exist_ok=True)
            with open(os.path.join(VERIF, path), 'w') as f:
                json.dump({'property': self.pid, 'what': what, 'found_failing_input': found,
                           'replay_cmd': './check %s --replay %s' % (self.pid, path), 'data': data},
                          f, indent=1, sort_keys=True, default=repr)
        self.violations.append((what, path, found))
        return True

    def finish(self):
        wall = time.time() - self.t0
        ev = {'property_id': self.pid, 'tier': self.tier, 'seed': self.seed, 'level': 'proof',
              'coverage': self.cov, 'assumptions': self.assumptions, 'wall_s': round(wall, 2),
              'violations': len(self.violations),
              'known_findings_reported': [k['tag'] for k in self.known]}
        os.makedirs(os.path.join(VERIF, 'evidence'), exist_ok=True)
        with open(os.path.join(VERIF, 'evidence', self.pid + '.json'), 'w') as f:
            json.dump(ev, f, indent=1, sort_keys=True, default=repr)
        for k in self.known:
            print('KNOWN-FINDING: property=%s %s: %s' % (self.pid, k['tag'], k['what']))
        seen = set()
        for what, path, found in self.violations:
            if path in seen:
                continue
            seen.add(path)
            if len(seen) > 5:
                continue
            print('VIOLATION property=%s replay=%s%s' % (self.pid, path, '' if found else ' no-failing-input-found'))
            print('  ' + what[:300])
        print('%s %s seed=%d: %d evaluations, %d distinct non-trivial, %d/%d obligations, %.1fs, %d violation(s)' % (
            self.pid, self.tier, self.seed, self.cov['evaluations'], self.cov['distinct_nontrivial'],
            self.cov['discharged'], self.cov['obligations'], wall, len(self.violations)))
        return 1 if self.violations else 0


# ----------------------------------------------------------------------------- known findings
def load_known_findings():
    p = os.path.join(VERIF, 'known_findings.json')
    out = {}
    if os.path.exists(p):
        for f in json.load(open(p)).get('findings', []):
            out.setdefault(f['property'], []).append(f)
            # a crash of the merger is a finding of C03; the other merge checks meet the same crash
            for other in f.get('also', []):
                out.setdefault(other, []).append(f)
    return out


CLASSIFIERS = {}


def classifier(name):
    def deco(fn):
        CLASSIFIERS[name] = fn
        return fn
    return deco


# ----------------------------------------------------------------------------- Lean build / audit
FORBIDDEN = re.compile(r'\b(sorry|admit|native_decide|bv_decide|implemented_by|unsafe)\b|^\s*axiom\s|maxHeartbeats\s+0')


def strip_lean_comments(src):
    src = re.sub(r'/-.*?-/', lambda m: '\n' * m.group(0).count('\n'), src, flags=re.S)
    return re.sub(r'--.*', '', src)


def forbidden_tokens():
    hits = []
    for root, _, files in os.walk(LEAN):
        if '.lake' in root:
            continue
        for fn in files:
            if fn.endswith('.lean'):
                src = strip_lean_comments(open(os.path.join(root, fn)).read())
                for n, line in enumerate(src.split('\n'), 1):
                    if FORBIDDEN.search(line):
                        hits.append('%s:%d: %s' % (os.path.relpath(os.path.join(root, fn), LEAN), n, line.strip()[:80]))
    return hits


def lake_build():
    os.makedirs(os.path.join(LEAN, '.lake'), exist_ok=True)
    with open(os.path.join(LEAN, '.lake', 'verif.lock'), 'w') as lk:
        fcntl.flock(lk, fcntl.LOCK_EX)
        p = subprocess.run(['lake', 'build'], cwd=LEAN, stdout=subprocess.PIPE, stderr=subprocess.STDOUT, timeout=3000)
    if p.returncode != 0:
        raise Infra('lake build failed:\n' + p.stdout.decode()[-2000:])


def lean_run(src, name, timeout=900):
    """elaborate a generated Lean file against the built library; returns (ok, output)"""
    gen = os.path.join(VERIF, 'gen')
    os.makedirs(gen, exist_ok=True)
    path = os.path.join(gen, name)
    with open(path, 'w') as f:
        f.write(src)
    p = subprocess.run(['lake', 'env', 'lean', path], cwd=LEAN, stdout=subprocess.PIPE,
                       stderr=subprocess.STDOUT, timeout=timeout)
    return p.returncode == 0, p.stdout.decode()


def audit(ctx, module, theorems):
    """#print axioms for every property theorem; counts them as proof obligations"""
    hits = forbidden_tokens()
    if hits:
        raise Infra('forbidden tokens in lean/: ' + '; '.join(hits[:5]))
    src = 'import %s\n' % module + ''.join('#print axioms %s\n' % t for t in theorems)
    ok, out = lean_run(src, 'Audit_%s.lean' % ctx.pid)
    if not ok:
        raise Infra('axiom audit failed to elaborate:\n' + out[-1500:])
    found = {}
    for m in re.finditer(r"'([^']+)' (depends on axioms: \[([^\]]*)\]|does not depend on any axioms)", out):
        found[m.group(1)] = set(x.strip() for x in (m.group(3) or '').split(',') if x.strip())
    for t in theorems:
        ctx.cov['obligations'] += 1
        if t not in found:
            raise Infra('theorem %s missing from the audit output' % t)
        extra = found[t] - ALLOWED_AXIOMS
        if extra:
            raise Infra('theorem %s depends on axioms %s' % (t, sorted(extra)))
        ctx.cov['discharged'] += 1
    ctx.cov['checker_cmd'] = 'cd lean && lake build && lake env lean ../gen/Audit_%s.lean  (#print axioms on %d theorems)' % (ctx.pid, len(theorems))
    ctx.cov.setdefault('theorems', []).extend(theorems)


def leanchecker(ctx, modules):
    p = subprocess.run(['lake', 'env', 'leanchecker'] + modules, cwd=LEAN, stdout=subprocess.PIPE,
                       stderr=subprocess.STDOUT, timeout=3000)
    ctx.cov['leanchecker'] = {'modules': modules, 'exit': p.returncode}
    if p.returncode != 0:
        raise Infra('leanchecker rejected %s: %s' % (modules, p.stdout.decode()[-800:]))


def shrink(case, smaller, fails, budget=400):
    """greedy delta debugging: `smaller(case)` yields candidates, `fails(c)` is the predicate"""
    n = 0
    progress = True
    while progress and n < budget:
        progress = False
        for c in smaller(case):
            n += 1
            if n >= budget:
                break
            try:
                if fails(c):
                    case, progress = c, True
                    break
            except Exception:
                continue
    return case


def check_oracle_hypothesis(ctx, drv, items):
    """items: [(memo, base_data)]. The round-trip theorems assume difflib's get_opcodes contract of the oracle
    (Lean: OracleOK / opcodesValid). Evaluate that very predicate, through the driver, on every recorded answer."""
    todo = [(m, b) for m, b in items if m.opcodes]
    if not todo:
        return
    for (m, base), rep in zip(todo, drv.run([{'cmd': 'oracleok', 'memo': m.to_json()} for m, _ in todo])):
        ctx.cov['theorem_hypothesis_checks'] = ctx.cov.get('theorem_hypothesis_checks', 0) + int(rep.get('checked', 0))
        if rep.get('ok') is not True:
            ctx.violation('hypothesis OracleOK of the round-trip theorem does not hold for a recorded difflib answer: %s' % json.dumps(rep)[:200],
                          dict(base, kind='hypothesis', theorem='Nbdime.C02_roundtrip_partial (OracleOK)', reply=rep), found=False, classify=False)


def py_compat(a, b):
    """Python rendering of the Lean relation `Compat` (hypothesis of the round-trip theorems): wherever the differ
    compares with ==, == implies typed equality. Used only to count how many generated cases lie in the theorems' domain."""
    if isinstance(a, list) and isinstance(b, list):
        return all(py_compat(x, y) for x in a for y in b)
    if isinstance(a, dict) and isinstance(b, dict):
        return all(py_compat(v, b[k]) for k, v in a.items() if k in b)
    try:
        return not (a == b) or canon(a) == canon(b)
    except Exception:
        return False
