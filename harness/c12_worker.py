"""Worker for C12: runs one history of calls inside ONE interpreter, and the same calls each in a
pristine child (forked before the parent has executed anything but imports) or, with --single,
in this freshly started interpreter. Reads a JSON job on stdin, writes JSON on stdout."""
import json, os, sys
HERE = os.path.dirname(os.path.abspath(__file__))
sys.path.insert(0, HERE)
import vlib
from vlib import enc, dec, enc_diff, plain, exc_class, canon
sys.path.insert(0, os.path.join(HERE))
from checks import mergelib

import nbdime  # noqa  (imports only; nothing executed yet)
import nbdime.diffing.notebooks as N
import nbformat


def do_call(c, record):
    t = c['t']
    if t == 'reset':
        N.reset_notebook_differ()
        return None
    if t == 'targets':
        s, o, a, m, i, d = c['flags']
        N.set_notebook_diff_targets(s, o, a, m, i, d)
        return None
    if t == 'ignores':
        N.set_notebook_diff_ignores({k: (v if isinstance(v, bool) else tuple(v)) for k, v in c['m']})
        return None
    if t == 'diff':
        a, b = dec(c['a']), dec(c['b'])
        if record:
            with vlib.recording() as memo:
                try:
                    r = {'ok': enc_diff(plain(N.diff_notebooks(nbformat.from_dict(a), nbformat.from_dict(b))))}
                except Exception as e:
                    r = {'err': exc_class(e), 'what': '%s: %s' % (type(e).__name__, str(e)[:200])}
            r['memo'] = memo.to_json()
            r['contract'] = memo.contract_violations
            return r
        try:
            return {'ok': enc_diff(plain(N.diff_notebooks(nbformat.from_dict(a), nbformat.from_dict(b))))}
        except Exception as e:
            return {'err': exc_class(e), 'what': '%s: %s' % (type(e).__name__, str(e)[:200])}
    if t == 'cli':
        # `nbdiff --out d.json [flags] a.ipynb b.ipynb` run in-process from a directory holding (or not) an
        # nbdime_config.json; the command configures the global differ itself, so it is followed by a reset
        import nbdime.nbdiffapp as app
        d = os.environ['C12_CWD']
        cfgp = os.path.join(d, 'nbdime_config.json')
        if c.get('cfg') is None:
            if os.path.exists(cfgp):
                os.unlink(cfgp)
        else:
            with open(cfgp, 'w') as f:
                json.dump(c['cfg'], f)
        for name in ('a', 'b'):
            with open(os.path.join(d, name + '.ipynb'), 'w') as f:
                json.dump(dec(c[name]), f)
        cwd0 = os.getcwd()
        os.chdir(d)
        try:
            if os.path.exists('d.json'):
                os.unlink('d.json')
            try:
                args = app._build_arg_parser('nbdiff').parse_args(['--out', 'd.json'] + c['flags'] + ['a.ipynb', 'b.ipynb'])
                rc = app.main_diff(args)
                res = {'ok': [rc, enc_diff(json.load(open('d.json')))]}
            except BaseException as e:  # noqa  (argparse exits)
                res = {'err': exc_class(e) if isinstance(e, Exception) else type(e).__name__, 'what': '%s: %s' % (type(e).__name__, str(e)[:200])}
        finally:
            os.chdir(cwd0)
            N.reset_notebook_differ()
        return res
    if t == 'merge':
        b, l, r = dec(c['b']), dec(c['l']), dec(c['r'])
        res = mergelib.run_merge(b, l, r, mergelib.Args(*c['args']))
        if res[0] == 'ok':
            known = mergelib.known_ids(b, l, r)
            return {'ok': [canon(mergelib.mask_new_ids(res[1], known)), json.dumps(mergelib.mask_new_ids(res[2], known), sort_keys=True)]}
        return {'err': res[1], 'what': res[2]}
    raise ValueError(t)


def config_suffix(calls, i):
    """configuration calls before index i since the last reset"""
    out = []
    for c in calls[:i]:
        if c['t'] in ('reset', 'cli'):
            out = []
        elif c['t'] in ('targets', 'ignores'):
            out.append(c)
    return out


def fresh_in_child(calls, i):
    r, w = os.pipe()
    pid = os.fork()
    if pid == 0:
        os.close(r)
        try:
            for c in config_suffix(calls, i):
                do_call(c, False)
            res = do_call(calls[i], False)
        except BaseException as e:  # noqa
            res = {'err': 'child-crash', 'what': repr(e)[:200]}
        with os.fdopen(w, 'w') as f:
            json.dump(res, f)
        os._exit(0)
    os.close(w)
    with os.fdopen(r) as f:
        data = f.read()
    os.waitpid(pid, 0)
    return json.loads(data)


def main():
    import tempfile
    job = json.load(sys.stdin)
    calls = job['calls']
    tmp = tempfile.mkdtemp(prefix='c12-')
    os.makedirs(os.path.join(tmp, 'cwd')); os.makedirs(os.path.join(tmp, 'empty'))
    os.environ['C12_CWD'] = os.path.join(tmp, 'cwd')
    os.environ['JUPYTER_CONFIG_DIR'] = os.path.join(tmp, 'empty')
    os.environ['JUPYTER_CONFIG_PATH'] = os.path.join(tmp, 'empty')
    try:
        _main(job, calls)
    finally:
        import shutil
        shutil.rmtree(tmp, ignore_errors=True)


def _main(job, calls):
    if '--single' in sys.argv:
        i = job['index']
        for c in config_suffix(calls, i):
            do_call(c, False)
        json.dump(do_call(calls[i], False), sys.stdout)
        return
    idx = [i for i, c in enumerate(calls) if c['t'] in ('diff', 'merge', 'cli')]
    fresh = {i: fresh_in_child(calls, i) for i in idx}          # before the parent executes anything
    hist = [do_call(c, True) for c in calls]
    json.dump({'hist': hist, 'fresh': {str(i): v for i, v in fresh.items()}}, sys.stdout)


if __name__ == '__main__':
    main()
