"""Minimal stand-in for jupyter_server (not installed in this sandbox)."""
