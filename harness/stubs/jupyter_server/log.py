def log_request(handler):
    return None
