def url_path_join(*pieces):
    initial = pieces[0].startswith('/')
    final = pieces[-1].endswith('/')
    stripped = [s.strip('/') for s in pieces]
    result = '/'.join(s for s in stripped if s)
    if initial:
        result = '/' + result
    if final:
        result = result + '/'
    if result == '//':
        result = '/'
    return result


def to_os_path(path, root=''):
    import os
    parts = [p for p in path.strip('/').split('/') if p]
    return os.path.join(root, *parts)


async def ensure_async(obj):
    import inspect
    if inspect.isawaitable(obj):
        return await obj
    return obj
