import json, logging
from tornado import web


class JupyterHandler(web.RequestHandler):
    @property
    def base_url(self):
        return self.settings.get('base_url', '/')

    @property
    def log(self):
        lg = logging.getLogger('verif.stub.jupyter_server')
        lg.addHandler(logging.NullHandler())
        lg.propagate = False
        return lg

    def render_template(self, name, **ns):
        return self.settings['jinja2_env'].get_template(name).render(**ns)

    def check_xsrf_cookie(self):
        return None


class APIHandler(JupyterHandler):
    def write_error(self, status_code, **kwargs):
        self.set_header('Content-Type', 'application/json')
        message = ''
        exc_info = kwargs.get('exc_info')
        if exc_info:
            e = exc_info[1]
            message = getattr(e, 'log_message', None) or str(e)
        self.finish(json.dumps({'message': message, 'status': status_code}))
