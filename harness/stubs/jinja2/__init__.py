"""Minimal stand-in for jinja2 (not installed in this sandbox): enough for nbdime.webapp to import."""
class FileSystemLoader:
    def __init__(self, searchpath=None, **kw):
        self.searchpath = searchpath
class ChoiceLoader:
    def __init__(self, loaders=None):
        self.loaders = loaders
class _Template:
    def __init__(self, name):
        self.name = name
    def render(self, **ns):
        import json
        return json.dumps({'template': self.name, 'ns': ns}, default=str)
class Environment:
    def __init__(self, loader=None, **kw):
        self.loader = loader
    def get_template(self, name):
        return _Template(name)
