"""Launcher for C08: runs the real nbmerge / git-nbmergedriver entry point with ONE fault injected
at a step boundary (monkey-patching only; /repo is not modified). Spec: JSON file named in argv[1]."""
import json, os, signal, sys
spec = json.load(open(sys.argv[1]))
site, nth, kind = spec.get('site'), spec.get('nth', 1), spec.get('kind')
outpath = os.path.abspath(spec['out']) if spec.get('out') else None


def boom():
    if kind == 'ioerror':
        raise OSError(5, 'Input/output error (injected)')
    if kind == 'memory':
        raise MemoryError('injected')
    if kind == 'interrupt':
        raise KeyboardInterrupt()
    if kind == 'kill':
        os.kill(os.getpid(), signal.SIGKILL)
    raise RuntimeError('unknown fault kind')


count = {}


def wrap(fn, name):
    def w(*a, **kw):
        if site == name:
            count[name] = count.get(name, 0) + 1
            if count[name] == nth:
                boom()
        return fn(*a, **kw)
    return w


import nbdime.nbmergeapp as app
import nbdime.merging.notebooks as mn
import nbformat, pathlib

app.read_notebook = wrap(app.read_notebook, 'read')
mn.diff_notebooks = wrap(mn.diff_notebooks, 'diff')
mn.decide_merge_with_diff = wrap(mn.decide_merge_with_diff, 'decide')
mn.apply_decisions = wrap(mn.apply_decisions, 'apply')
nbformat.writes = wrap(nbformat.writes, 'serialise')
os.remove = wrap(os.remove, 'remove')

_orig_open = pathlib.Path.open


class FaultyFile:
    def __init__(self, f):
        self._f, self._n = f, 0

    def write(self, s):
        self._n += 1
        if site == 'write' and self._n == nth:
            self._f.write(s[:max(1, len(s) // 2)])
            self._f.flush()
            boom()
        return self._f.write(s)

    def __enter__(self):
        self._f.__enter__()
        return self

    def __exit__(self, *a):
        return self._f.__exit__(*a)

    def __getattr__(self, k):
        return getattr(self._f, k)


def path_open(self, mode='r', *a, **kw):
    if outpath and os.path.abspath(str(self)) == outpath and 'w' in mode:
        if site == 'open':
            boom()
        return FaultyFile(_orig_open(self, mode, *a, **kw))
    return _orig_open(self, mode, *a, **kw)


pathlib.Path.open = path_open

if spec['entry'] == 'driver':
    from nbdime.vcs.git.mergedriver import main
else:
    main = app.main
sys.exit(main(spec['argv']))
